"""C10 — Aave balances accrue exactly with the indices; operations move exactly the stated amounts."""
import copy
from decimal import Decimal
from fractions import Fraction

from vf import aave
from vf.aave import Ref, fr
from vf.engine import Ctx, derive_seed, replay_body, run_given
from vf.gen.aave import st_case

PROPERTY = "C10"
RULE = (
    "generated Aave histories (2-4 tokens, 1-10 bars; liquidity / borrow indices non-decreasing with flat stretches, "
    "tiny / small / 8% steps, equal or unequal across tokens; supply / withdraw / borrow / repay with cash and with "
    "collateral (same or other token), amounts 0, dust, fractions, exactly all, a hair above, 10x; None = everything) "
    "are executed on the real market and on an exact rational ledger (balance += stated amount, x index ratio per "
    "bar); compared after every step. Each history is also re-run with one accepted operation split in two. "
    "Non-trivial = a balance compared at least two bars after the position was opened, at a different index."
)
ASSUMPTIONS = [
    "the ledger is re-synchronised (and the step labelled) after a liquidation; liquidation amounts are C12's subject",
    "a balance below 1e-18 scaled units is treated as zero (the code's stated token resolution)",
    "wallet debits may snap to zero within the documented 1e-5 relative rule of Asset.sub",
]
MIN_NONTRIVIAL = {"quick": 600, "thorough": 12000}
REQUIRED_LABELS = ["ok.supply", "ok.withdraw", "ok.borrow", "ok.repay", "ok.repay.collateral", "ok.repay.collateral.other", "full.withdraw", "full.repay", "unequal_indices", "split.compared", "wallet.allow_negative.near_balance"]

TOL = Fraction(4, 10**18)
REL = Fraction(1, 10**28)


class Obs(aave.Observer):
    def __init__(self, ctx, case, strict=True):
        self.ctx, self.case, self.strict = ctx, case, strict
        self.ms, self.md = {}, {}  # ledger: supplied / owed amounts (Fractions)
        self.opened_s, self.opened_d = {}, {}  # token -> (bar, index) when the position was opened
        self.idx = None
        self.labels = set()
        self.nontrivial = False
        self.pre = None
        self.trace = []  # (op with absolute amount, outcome) for the split re-run
        self.liq = False

    def resync(self, w):
        r = Ref(w)
        self.ms = dict(r.sup_amt)
        self.md = dict(r.bor_amt)

    def bar_start(self, w, i):
        new = {n: (w.li(n), w.bi(n)) for n in w.tok}
        if self.idx is not None:
            for n in list(self.ms):
                self.ms[n] = self.ms[n] * new[n][0] / self.idx[n][0]
            for n in list(self.md):
                self.md[n] = self.md[n] * new[n][1] / self.idx[n][1]
        self.idx = new
        if len({v for v in new.values()}) > 1 or any(a != b for a, b in new.values()):
            self.labels.add("unequal_indices")
        self.compare(w, "newbar")

    def before_op(self, w, opamt):
        self.pre = (w.raw(), len(w.actions))

    def after_op(self, w, opamt, out):
        op, amount = opamt
        kind = op[0]
        ctx, case = self.ctx, self.case
        raw0, nact = self.pre
        if kind in ("read", "flag"):
            self.trace.append((op, out[0]))
            self.compare(w, kind)
            return
        self.trace.append(([kind, op[1], ["abs", format(amount, "f")] if amount is not None else None] + list(op[3:]), out[0]))
        if out[0] != "ok":
            self.labels.add(f"rejected.{kind}")
            self.compare(w, f"{kind}.rejected", wallet_from=None)
            return
        n = op[1]
        r0 = Ref(w, raw0)
        stated = fr(amount) if amount is not None else None
        dw = {n: Fraction(0)}  # expected wallet delta
        if kind == "supply":
            self.ms[n] = self.ms.get(n, Fraction(0)) + stated
            self.opened_s.setdefault(n, (w.bar, w.li(n)))
            dw[n] = -stated
        elif kind == "withdraw":
            if stated is None:
                stated = r0.sup_amt[n]
                self.ms[n] = Fraction(0)
                self.labels.add("full.withdraw")
            else:
                self.ms[n] = self.ms.get(n, Fraction(0)) - stated
            dw[n] = stated
        elif kind == "borrow":
            if stated is None:
                # "max": whatever the helper answered; the recorded action states it
                stated = fr(w.actions[-1].amount)
            self.md[n] = self.md.get(n, Fraction(0)) + stated
            self.opened_d.setdefault(n, (w.bar, w.bi(n)))
            dw[n] = stated
        elif kind == "repay":
            debt0 = r0.bor_amt.get(n, Fraction(0))
            if stated is None:
                stated = debt0
            if op[3]:
                c = op[4] or n
                self.labels.add("ok.repay.collateral" + (".other" if c != n else ""))
                need = stated * w.px(n) / w.px(c)
                have = r0.sup_amt.get(c, Fraction(0))
                if need > have:
                    # the contract lowers the repayment to what the collateral covers
                    stated = have * w.px(c) / w.px(n)
                    need = have
                    self.labels.add("repay.collateral.capped")
                self.ms[c] = self.ms.get(c, Fraction(0)) - need
            else:
                dw[n] = -stated
            if stated == debt0:
                self.labels.add("full.repay")
            self.md[n] = self.md.get(n, Fraction(0)) - stated
        self.labels.add(f"ok.{kind}")
        # the recorded action states the amount that moved
        acts = w.actions[nact:]
        ctx.check(len(acts) == 1, f"{kind}.action.count", lambda: f"{len(acts)} actions recorded for one accepted {kind}", case)
        if acts:
            got = fr(acts[0].amount)
            ctx.check(abs(got - stated) <= REL * abs(stated) + Fraction(1, 10**30), f"{kind}.action.amount", lambda: f"action says {acts[0].amount}, stated {float(stated)}", case)
        # wallet moves exactly the stated amount
        raw1 = w.raw()
        for t, d in dw.items():
            a0 = fr(raw0["wal"].get(t, 0))
            a1 = fr(raw1["wal"].get(t, 0))
            exact = abs((a1 - a0) - d) <= REL * abs(d) + Fraction(1, 10**32) * max(abs(a0), abs(a1), 1)
            # the 1e-5 snap belongs to wallets that refuse overdrafts; a broker that allows negative balances debits exactly
            snapped = not case.get("allow_negative") and d < 0 and a1 == 0 and a0 != 0 and abs((a0 + d) / a0) < Fraction(1, 10**5)
            if case.get("allow_negative"):
                self.labels.add("wallet.allow_negative" + (".near_balance" if d < 0 and a0 != 0 and 0 < abs((a0 + d) / a0) < Fraction(1, 10**5) else ""))
            ctx.check(exact or snapped, f"{kind}.wallet", lambda: f"{kind} {t} stated {float(d)}: wallet {raw0['wal'].get(t)} -> {raw1['wal'].get(t)}", case)
        for t in raw1["wal"]:
            if t not in dw:
                ctx.check(fr(raw1["wal"][t]) == fr(raw0["wal"].get(t, 0)), f"{kind}.wallet.other", lambda: f"{kind} on {n} changed wallet {t}", case)
        self.compare(w, kind, touched={("withdraw", "supply"): {("supply", n)}, ("repay", "debt"): {("debt", n)}}.get((kind, "supply" if kind == "withdraw" else "debt"), set()) | ({("supply", op[4] or n)} if kind == "repay" and op[3] else set()))

    def on_action(self, w, a):
        if type(a).__name__ == "LiquidationAction":
            self.liq = True

    def after_update(self, w, err):
        if self.liq or err is not None:
            self.labels.add("liquidation.resync")
            self.resync(w)
            self.liq = False
        self.compare(w, "update")

    def compare(self, w, where, wallet_from=None, touched=()):
        ctx, case = self.ctx, self.case
        r = Ref(w)
        # what the market says can be repaid at most is the debt itself
        for n, owed in r.bor_amt.items():
            got = ctx.guarded("max_repay", case, w.market.get_max_repay_amount, w.tok[n])
            if got is not None:
                ctx.check(abs(fr(got) - owed) <= REL * owed + Fraction(1, 10**30), "max_repay.amount", lambda: f"get_max_repay_amount({n}) = {got} but the debt is {float(owed)!r}", case)
        for side, led, got, opened, index in (("supply", self.ms, r.sup_amt, self.opened_s, 0), ("debt", self.md, r.bor_amt, self.opened_d, 1)):
            for n in set(led) | set(got):
                exp = led.get(n, Fraction(0))
                g = got.get(n, Fraction(0))
                tol = TOL * max(self.idx[n]) + REL * abs(exp)
                ctx.check(abs(g - exp) <= tol, f"accrual.{side}.{where.split('.')[0]}", lambda: f"{side} {n} after {where} in bar {w.bar}: position {float(g)!r} vs ledger {float(exp)!r} (diff {float(g - exp):.3e})", case)
                if exp <= 0 and n in led:
                    # fully repaid / withdrawn: the entry disappears (a zero-amount supply / borrow may list an empty entry)
                    if (side, n) in touched:
                        ctx.check(n not in got, f"vanish.{side}", lambda: f"{side} {n} is {float(exp)} on the ledger after {where} but the entry is still listed with {float(g)}", case)
                    if n not in got:
                        led.pop(n, None)
                        opened.pop(n, None)
                elif n not in got and n in led:
                    # entry gone although something is owed / owned (only dust may vanish)
                    led.pop(n, None)
                    opened.pop(n, None)
                if n in opened and n in got:
                    b0, i0 = opened[n]
                    if w.bar - b0 >= 2 and self.idx[n][index] != i0:
                        self.nontrivial = True


def run_case(case, ctx, strict=True):
    obs = Obs(ctx, case, strict)
    w = aave.World(case, obs)
    w.run()
    return obs, w


def body(case, ctx: Ctx):
    obs, w = run_case(case, ctx)
    # ---- split / merge: replay with absolute amounts, one accepted operation split in two
    ops = [t for t in obs.trace]
    flat = []
    k = 0
    for b in case["bars"]:
        flat.append(ops[k : k + len(b["ops"])])
        k += len(b["ops"])
    cand = [(bi, oi) for bi, bo in enumerate(flat) for oi, (op, o) in enumerate(bo) if o == "ok" and op[0] in ("supply", "withdraw", "borrow", "repay") and op[2] is not None and Decimal(op[2][1]) > 0]
    if cand and "liquidation.resync" not in obs.labels:
        bi, oi = cand[len(cand) // 2]
        for split_it in (False, True):
            c2 = copy.deepcopy(case)
            for i, bo in enumerate(flat):
                newops = []
                for j, (op, o) in enumerate(bo):
                    if split_it and (i, j) == (bi, oi):
                        x = Decimal(op[2][1])
                        x1 = (x * Decimal("0.37")).quantize(Decimal("1e-18"))
                        a, b2 = copy.deepcopy(op), copy.deepcopy(op)
                        a[2], b2[2] = ["abs", format(x1, "f")], ["abs", format(x - x1, "f")]
                        newops += [a, b2]
                    else:
                        newops.append(op)
                c2["bars"][i]["ops"] = newops
            sub = Ctx(PROPERTY, "split-inner")
            sub._known = ctx._known
            o2, w2 = run_case(c2, sub)
            if split_it:
                got, base = Ref(w2), base_ref
                same = [x[1] for x in o2.trace if True]
                # outcomes must line up (the split op contributes two entries)
                exp_out = []
                for i, bo in enumerate(flat):
                    for j, (op, o) in enumerate(bo):
                        exp_out += [o, o] if (i, j) == (bi, oi) else [o]
                if same != exp_out:
                    obs.labels.add("split.diverged")
                else:
                    obs.labels.add("split.compared")
                    for side, A, B in (("supply", got.sup_amt, base.sup_amt), ("debt", got.bor_amt, base.bor_amt)):
                        for n in set(A) | set(B):
                            d = abs(A.get(n, Fraction(0)) - B.get(n, Fraction(0)))
                            ctx.check(d <= Fraction(3, 10**18) + REL * abs(B.get(n, Fraction(0))), f"split.{side}", lambda: f"splitting {flat[bi][oi][0]} in bar {bi} changes final {side} {n} by {float(d):.3e}", case)
            else:
                base_ref = Ref(w2)
    ctx.case(case, obs.nontrivial, sorted(obs.labels))


def shards(tier, seed):
    n = 220 if tier == "quick" else 4500
    return [{"sub": "ledger", "idx": i, "n": n, "seed": derive_seed(seed, PROPERTY, "ledger", i)} for i in range(16)]


def run_shard(spec):
    ctx = Ctx(PROPERTY, spec["sub"])
    v = run_given(ctx, st_case("accrual", max_bars=10, max_ops=4), body, spec["n"], spec["seed"])
    return ctx.result(v)


def replay(rec):
    return replay_body(PROPERTY, body, rec["case"], rec["sub"])
