"""C01 — reported net value = independent valuation of wallet plus positions, at every bar of real backtests."""
from decimal import Decimal
from fractions import Fraction

from hypothesis import strategies as st

from vf import multi, world
from vf.engine import Ctx, derive_seed, replay_body, run_given
from vf.gen.multi import st_universe

PROPERTY = "C01"
RULE = (
    "real Actuator.run over generated universes: any non-empty mix of {Uniswap pool USDC/WETH in either token order and "
    "either quote token, Aave (3 tokens, generated risk table), Squeeth with its oSQTH/WETH pool, Deribit hourly option "
    "book, GMX v1 GLP, GMX v2 GM} added in a generated order, account quote USD / USDC / WETH, 1-8 bars at 1/2/5/15/60 "
    "minutes, generated ETH / oSQTH / AVAX / index / pool-state paths (incl. crashes that liquidate and expiries), external "
    "price frame on or off the pools' own prices, and a generated program of operations of every market (all phases, "
    "amounts relative to holdings incl. oversized ones, LP positions lent to vaults). At the end of every bar the raw "
    "position containers are valued by an independent reference from the generated data rows and compared with "
    "AccountStatus.net_value, asset_value and each market's net_value. Non-trivial = a bar with a non-wallet holding."
)
ASSUMPTIONS = [
    "a market's value is converted with the price-frame entry of the market's quote token (USD-valued markets: aave, squeeth, gmx convert at 1, so the account quote is a USD stable coin whenever one of them is present)",
    "an LP position lent to a vault is valued inside the vault the way the controller does (oSQTH at the index price), once",
    "an option position whose instrument is missing from the hour's snapshot has no mark and is valued at nothing",
    "tolerances: 1e-20 relative for Decimal markets, 2e-4 absolute for Aave (it reports at 1e-4), 1e-8 relative on the float TWAP part, 1e-12 for GMX v2 floats",
]
MIN_NONTRIVIAL = {"quick": 400, "thorough": 8000}
REQUIRED_LABELS = ["mkt.uni", "mkt.aave", "mkt.sq", "mkt.opt", "mkt.glp", "mkt.gm", "quote.differs", "lp_in_vault", "interval.gt1", "closed_bar.cash_move", "held.uni", "held.aave", "held.sq", "held.opt", "held.glp", "held.gm"]


class Val(multi.Obs):
    def __init__(self):
        self.raw = {}
        self.closed_moves = 0

    def phase_end(self, u, phase, snap):
        if phase == "after":
            self.raw[snap.row_id] = multi.raw_state(u)

    def op_done(self, u, phase, op, out):
        if op[2] == "opt" and op[3] in ("deposit", "withdraw") and out[0] == "ok" and not u.m["opt"].is_open:
            self.closed_moves += 1


def body(case, ctx: Ctx):
    obs = Val()
    u = ctx.guarded("build", case, multi.Universe, case, [obs])
    if u is None:
        ctx.case(case, False, ["build.failed"])
        return
    labels = {f"mkt.{k}" for k in case["order"]}
    if case["k"] > 1:
        labels.add("interval.gt1")
    ok = ctx.guarded("loop", case, lambda: (world.quiet_run(u.actuator), True)[1])
    if ok is None:
        ctx.case(case, False, sorted(labels))
        return
    if obs.closed_moves:
        labels.add("closed_bar.cash_move")
    if any(m.quote_token.name != case["quote"] for m in u.m.values()):
        labels.add("quote.differs")
    sts = u.actuator.account_status
    ctx.check(len(sts) == len(u.bars) == len(obs.raw), "bars", lambda: f"{len(sts)} account rows, {len(obs.raw)} bars seen, {len(u.bars)} expected", case)
    nontrivial = False
    for i in range(min(len(sts), len(obs.raw))):
        raw = obs.raw[i]
        net, asset, per, tol = multi.ref_value(u, i, raw)
        st_ = sts[i]
        held = False
        for key in u.m:
            r = raw[key]
            nonempty = bool(r) if key in ("uni", "squni") else (bool(r[0]) or bool(r[1])) if key == "aave" else bool(r[0]) if key == "sq" else (r[0] != 0 or bool(r[1])) if key == "opt" else (r[0] != 0 or r[1] != 0) if key == "glp" else r != 0
            if nonempty:
                held = True
                labels.add(f"held.{'uni' if key == 'squni' else key}")
        if "sq" in u.m and any(v[2] is not None for v in raw["sq"][0].values()):
            labels.add("lp_in_vault")
        nontrivial = nontrivial or held
        where = f"bar {i} ({u.bars[i]})"
        for key, m in u.m.items():
            got = st_.market_status[m.market_info].net_value
            conv = Fraction(1) if m.quote_token.name == case["quote"] else multi.fr(u.bar_price(i, m.quote_token.name))
            ctx.check(abs(multi.fr(got) * conv - per[key]) <= tol, f"market.{key}", lambda: f"{where}: {key} reports net value {got} {m.quote_token.name} (x {float(conv)} = {float(multi.fr(got) * conv)} {case['quote']}); its raw positions {raw[key]} are worth {float(per[key])}", case)
        ctx.check(abs(multi.fr(st_.asset_value) - asset) <= abs(asset) / 10**25, "asset_value", lambda: f"{where}: asset_value {st_.asset_value}, wallet {raw['wallet']} is worth {float(asset)}", case)
        ctx.check(abs(multi.fr(st_.net_value) - net) <= tol, "net_value", lambda: f"{where}: net_value {st_.net_value}, independent valuation {float(net)} (wallet {float(asset)}, markets { {k: float(v) for k, v in per.items()} })", case)
    ctx.case(case, nontrivial, sorted(labels), key=[case["order"], case["quote"], case["prog"], case["eth"]])


def shards(tier, seed):
    n = 110 if tier == "quick" else 2200
    return [{"sub": "loop", "idx": i, "n": n, "seed": derive_seed(seed, PROPERTY, "loop", i)} for i in range(16)]


def run_shard(spec):
    ctx = Ctx(PROPERTY, spec["sub"])
    v = run_given(ctx, st_universe("loop"), body, spec["n"], spec["seed"])
    return ctx.result(v)


def replay(rec):
    return replay_body(PROPERTY, body, rec["case"], rec["sub"])
