"""C12 — Aave liquidation: only below HF 1, close factor, exact bonus at the collateral's own index, wallet untouched."""
from fractions import Fraction

from vf import aave
from vf.aave import INF, Ref, close, fr
from vf.engine import Ctx, derive_seed, replay_body, run_given
from decimal import Decimal

from vf.gen.aave import st_case

PROPERTY = "C12"
RULE = (
    "generated multi-collateral, multi-debt Aave portfolios (risk files with LT up to 95% and bonuses up to the "
    "LT x (1 + bonus) <= 1 bound, so that repeated steps are needed) built by real operations, then generated price and "
    "index rows (different liquidity and borrow indices per token) drive the health factor to (0, 0.95], (0.95, 1), and "
    "above 1; update() is observed through the action callback, which snapshots the raw state at every "
    "LiquidationAction; every step and the whole update are validated against the exact rational step model. "
    "Non-trivial = an update entered with health factor < 1 in which a step's collateral liquidity index differs from "
    "its debt token's liquidity index."
)
ASSUMPTIONS = [
    "a bar whose health factor before update() lies within 1e-30 of 1 without being exactly 1 is not asserted (35-digit arithmetic decides the side)",
    "collateral-enabled tokens have a positive liquidation threshold (Aave's own validation); the 'liquidated iff HF < 1' "
    "direction is not asserted for a state in which a supply with threshold 0 was flagged as collateral by hand",
    "which collateral / debt pair a step picks is not prescribed by the property; only the arithmetic of the step is",
]
MIN_NONTRIVIAL = {"quick": 400, "thorough": 8000}
REQUIRED_LABELS = ["liquidated", "not_liquidated.healthy", "cf.half", "cf.full", "seize.capped", "seize.partial", "steps.2+", "exit.healthy", "exit.no_collateral_or_all_visited", "same_token_step", "hf.exactly_0.95"]

EPS = Fraction(1, 10**24)
DUST = Fraction(3, 10**18)


class Obs(aave.Observer):
    def __init__(self, ctx, case):
        self.ctx, self.case = ctx, case
        self.labels = set()
        self.nontrivial = False
        self.snaps = None
        self.acts_before = 0

    def before_update(self, w):
        self.snaps = [w.raw()]
        self.steps = []
        self.acts_before = len(w.actions)

    def on_action(self, w, a):
        if w.in_update:
            self.snaps.append(w.raw())
            self.steps.append(a)

    def after_op(self, w, opamt, out):
        # a user operation never produces a liquidation record
        pass

    def after_update(self, w, err):
        ctx, case = self.ctx, self.case
        S0 = self.snaps[0]
        r0 = Ref(w, S0)
        final = w.raw()
        rF = Ref(w, final)
        if err is not None:
            ctx.fail(f"update.exception.{type(err).__name__}", f"update() raised {type(err).__name__}: {err} in bar {w.bar} (health factor before {r0.hf if r0.hf == INF else float(r0.hf)})", case)
            return
        others = [a for a in w.actions[self.acts_before :] if type(a).__name__ != "LiquidationAction"]
        ctx.check(not others, "update.other_actions", lambda: f"update() recorded {[type(a).__name__ for a in others]}", case)
        hand_flagged_zero_lt = any(c and w.par[n]["lt"] == 0 for n, (b, c) in S0["sup"].items())
        if r0.B > 0 and r0.hf != INF and r0.hf != 1 and abs(r0.hf - 1) <= Fraction(1, 10**30):
            # the health factor sits on 1 to within the last digits of the 35-digit arithmetic (e.g. 2.2222... WETH left by an
            # earlier step): which side the implementation's own rounding puts it on is not the statement's business
            self.labels.add("hf.edge_of_1.skipped")
            return
        healthy = r0.B == 0 or r0.hf >= 1
        if healthy:
            self.labels.add("not_liquidated.healthy" if r0.B > 0 else "no_debt")
            ctx.check(not self.steps, "iff.liquidated_while_healthy", lambda: f"liquidation although health factor is {r0.hf if r0.hf == INF else float(r0.hf)}", case)
            ctx.check(final == S0, "iff.state_changed_while_healthy", lambda: f"update() changed the position although health factor is {r0.hf if r0.hf == INF else float(r0.hf)}", case)
            return
        if r0.lt_sum > 0 and not hand_flagged_zero_lt:
            ctx.check(len(self.steps) >= 1, "iff.not_liquidated", lambda: f"no liquidation although health factor is {float(r0.hf)}", case)
        if self.steps:
            self.labels.add("liquidated")
        if len(self.steps) >= 2:
            self.labels.add("steps.2+")
        visited = []
        for k, a in enumerate(self.steps):
            prev, now = self.snaps[k], self.snaps[k + 1]
            rp, rn = Ref(w, prev), Ref(w, now)
            d, c = a.debt_token, a.collateral_token
            sig = "step"
            ctx.check(rp.B > 0 and rp.hf < 1, f"{sig}.hf_not_below_1", lambda: f"step {k} ran with health factor {float(rp.hf) if rp.hf != INF else rp.hf}", case)
            ctx.check(d not in visited, f"{sig}.debt_visited_twice", lambda: f"debt {d} liquidated twice in one update", case)
            visited.append(d)
            ctx.check(prev["wal"] == now["wal"], f"{sig}.wallet", lambda: f"step {k} changed the wallet: {prev['wal']} -> {now['wal']}", case)
            for n in set(prev["sup"]) | set(now["sup"]):
                if n != c:
                    ctx.check(prev["sup"].get(n) == now["sup"].get(n), f"{sig}.other_supply", lambda: f"step {k} ({c}/{d}) changed supply {n}", case)
            for n in set(prev["bor"]) | set(now["bor"]):
                if n != d:
                    ctx.check(prev["bor"].get(n) == now["bor"].get(n), f"{sig}.other_debt", lambda: f"step {k} ({c}/{d}) changed debt {n}", case)
            if c in now["sup"]:
                ctx.check(now["sup"][c][1] == prev["sup"][c][1], f"{sig}.flag", lambda: f"step {k} changed the collateral flag of {c}", case)
            debt0 = rp.bor_amt.get(d, Fraction(0))
            coll0 = rp.sup_amt.get(c, Fraction(0))
            repaid = debt0 - rn.bor_amt.get(d, Fraction(0))
            seized = coll0 - rn.sup_amt.get(c, Fraction(0))
            ctx.check(repaid >= 0 and seized >= 0, f"{sig}.negative", lambda: f"step {k}: repaid {float(repaid)} seized {float(seized)}", case)
            ctx.check(all(fr(b) >= 0 for b, _ in now["sup"].values()) and all(fr(b) >= 0 for b in now["bor"].values()), f"{sig}.negative_amount", lambda: f"negative position after step {k}: {now}", case)
            cf = Fraction(1, 2) if rp.hf > Fraction(95, 100) else Fraction(1)
            self.labels.add("cf.half" if cf != 1 else "cf.full")
            ctx.check(repaid <= cf * debt0 * (1 + EPS) + DUST * w.bi(d), f"{sig}.close_factor", lambda: f"step {k}: repaid {float(repaid)} of {float(debt0)} {d} with health factor {float(rp.hf)} (close factor {cf})", case)
            bonus = Fraction(w.par[c]["bonus"], 10000)
            # (an upper bound, as the statement says: the unchanged code itself repays less than the close factor allows when
            # the debt token is worth less than a dollar - it passes the debt's dollar value as the token amount to cover)
            if rp.hf == Fraction(95, 100):
                self.labels.add("hf.exactly_0.95")
            exp_seize = repaid * w.px(d) / w.px(c) * (1 + bonus)
            tol = EPS * exp_seize + DUST * (w.li(c) + w.bi(d) * w.px(d) / w.px(c))
            capped = abs(seized - coll0) <= DUST * w.li(c)
            self.labels.add("seize.capped" if capped else "seize.partial")
            if c == d:
                self.labels.add("same_token_step")
            ctx.check(abs(seized - exp_seize) <= tol, f"{sig}.seized_amount", lambda: f"step {k}: repaid {float(repaid)} {d} (price {float(w.px(d))}) should seize {float(exp_seize)} {c} (price {float(w.px(c))}, bonus {float(bonus)}, liquidity index {float(w.li(c))}; debt token's {float(w.li(d))}) but {float(seized)} of {float(coll0)} was taken", case)
            dnv = rn.nv() - rp.nv()
            exp_dnv = -bonus * repaid * w.px(d)
            ctx.check(abs(dnv - exp_dnv) <= Fraction(1, 10**20) * abs(exp_dnv) + tol * w.px(c), f"{sig}.net_value", lambda: f"step {k}: net value changed by {float(dnv)} instead of -bonus x repaid value = {float(exp_dnv)}", case)
            # the record matches the state change
            t2 = Fraction(1, 10**20)
            ctx.check(close(a.collateral_used, seized, t2, tol), f"{sig}.record.collateral_used", lambda: f"record says {a.collateral_used} {c} used, state lost {float(seized)}", case)
            ctx.check(close(a.variable_delt_liquidated, repaid, t2, DUST * w.bi(d)), f"{sig}.record.debt_liquidated", lambda: f"record says {a.variable_delt_liquidated} {d} repaid, state lost {float(repaid)}", case)
            ctx.check(close(a.collateral_after, rn.sup_amt.get(c, Fraction(0)), t2, tol), f"{sig}.record.collateral_after", lambda: f"record says {a.collateral_after} {c} left, state has {float(rn.sup_amt.get(c, Fraction(0)))}", case)
            ctx.check(close(a.variable_debt_after, rn.bor_amt.get(d, Fraction(0)), t2, DUST * w.bi(d)), f"{sig}.record.debt_after", lambda: f"record says {a.variable_debt_after} {d} owed, state has {float(rn.bor_amt.get(d, Fraction(0)))}", case)
            ctx.check(close(a.health_factor_before, rp.hf, t2), f"{sig}.record.hf_before", lambda: f"record hf before {a.health_factor_before} vs {float(rp.hf)}", case)
            ctx.check(close(a.health_factor_after, rn.hf, t2), f"{sig}.record.hf_after", lambda: f"record hf after {a.health_factor_after} vs {rn.hf if rn.hf == INF else float(rn.hf)}", case)
            if w.li(c) != w.li(d):
                self.nontrivial = True
        ctx.check(self.snaps[-1] == final, "update.unrecorded_change", lambda: "state changed after the last recorded liquidation step", case)
        # exit condition
        exit_ok = rF.B == 0 or rF.hf >= 1
        if exit_ok:
            self.labels.add("exit.healthy")
        else:
            no_coll = rF.lt_sum == 0
            all_visited = {n for n, a_ in r0.bor_amt.items() if a_ > 0} <= set(visited)  # an empty debt entry cannot be liquidated
            self.labels.add("exit.no_collateral_or_all_visited")
            if not hand_flagged_zero_lt:
                ctx.check(no_coll or all_visited, "exit", lambda: f"update() ended with health factor {float(rF.hf)}, collateral left, debts {sorted(r0.bor_amt)} visited {visited}", case)


def st_exact_hf():
    """Portfolios whose health factor is an exact decimal (indices 1, one collateral of c tokens at price p, a debt of
    c x LT / 10 units of a 1-dollar token: HF = p / 1000), re-priced to 0.95, 1 and their neighbours."""
    from hypothesis import strategies as st

    @st.composite
    def build(draw):
        lt = draw(st.sampled_from([7500, 8000, 8250, 9000]))
        tokens = [{"name": "WETH", "dec": 18, "ltv": lt - 500, "lt": lt, "bonus": draw(st.sampled_from([500, 750, 1000])), "coll": True, "borrow": True},
                  {"name": "DAI", "dec": 18, "ltv": 7000, "lt": 7500, "bonus": 500, "coll": True, "borrow": True},
                  {"name": "USDT", "dec": 6, "ltv": 0, "lt": 0, "bonus": 500, "coll": False, "borrow": True}]
        c = draw(st.sampled_from(["4", "10", "2.5"]))
        two = draw(st.booleans())
        debt = Decimal(c) * lt / 10  # in dollars
        rows = {t["name"]: {"li": "1", "bi": "1", "lr": "0", "br": "0"} for t in tokens}
        ops = [["supply", "WETH", ["abs", c], True]]
        if two:
            ops += [["borrow", "DAI", ["abs", format(debt * Decimal("0.25"), "f")]], ["borrow", "USDT", ["abs", format(debt * Decimal("0.75"), "f")]]]
        else:
            ops += [["borrow", "DAI", ["abs", format(debt, "f")]]]
        p1 = draw(st.sampled_from(["950", "950", "950.001", "949.999", "1000", "999.999", "900", "990"]))
        bars = [{"rows": rows, "prices": {"WETH": "4000", "DAI": "1", "USDT": "1"}, "ops": ops}, {"rows": rows, "prices": {"WETH": p1, "DAI": "1", "USDT": "1"}, "ops": []}]
        if draw(st.booleans()):
            bars.append({"rows": rows, "prices": {"WETH": draw(st.sampled_from(["950", "900", "1000"])), "DAI": "1", "USDT": "1"}, "ops": []})
        return {"tokens": tokens, "wallet": {"WETH": "20", "DAI": "0", "USDT": "0"}, "bars": bars}

    return build()


def body(case, ctx: Ctx):
    obs = Obs(ctx, case)
    w = aave.World(case, obs)
    w.run()
    ctx.case(case, obs.nontrivial, sorted(obs.labels))


def shards(tier, seed):
    n = 800 if tier == "quick" else 16000
    return [{"sub": "liq", "idx": i, "n": n, "seed": derive_seed(seed, PROPERTY, "liq", i)} for i in range(16)]


def run_shard(spec):
    ctx = Ctx(PROPERTY, spec["sub"])
    from hypothesis import strategies as st

    v = run_given(ctx, st.one_of(*[st_case("liq", max_bars=7, max_ops=4)] * 7, st_exact_hf()), body, spec["n"], spec["seed"])
    return ctx.result(v)


def replay(rec):
    return replay_body(PROPERTY, body, rec["case"], rec["sub"])
