"""C07 — liquidity / amount math: no over-spend, maximal, one-sided out of range, exact."""
import pandas as pd
from decimal import Decimal
from fractions import Fraction

from hypothesis import strategies as st

from vf import world
from vf.engine import Ctx, derive_seed, replay_body, run_given
from vf.ref import liqmath as R
from vf.ref import tickmath as T

PROPERTY = "C07"
RULE = (
    "math: (decimals in {6,8,18}^2, tick pair by class adjacent/narrow/wide/touching MIN or MAX, sqrt price by class "
    "exactly lower/upper bound, one unit inside/outside a bound, exactly a tick ratio inside, between ticks, far "
    "below/above, MIN/MAX ratio; offered amounts 0 / 1 wei / log-uniform to 1e12 tokens / sub-wei dust; liquidity to "
    "2^128) checked against exact Fraction closed forms; market: add_liquidity_by_tick then remove_liquidity at the "
    "same price through a real UniLpMarket (both orientations, default and explicit sqrt price). Non-trivial = minted "
    "liquidity > 0; distinct by full argument tuple."
)
ASSUMPTIONS = [
    "tick -> sqrt ratio map of the implementation is used to place prices on boundaries (tied to the reference by C06)",
    "offered amounts carry at most 34 significant digits (the code works in a 35-digit decimal context)",
    "tolerance 1e-30 relative for Decimal-vs-exact comparisons, as stated by the property",
]
MIN_NONTRIVIAL = {"quick": 20000, "thorough": 400000}
REQUIRED_LABELS = ["region.below", "region.inside", "region.above", "price.at_lower", "price.at_upper", "range.touch_min", "range.touch_max", "market.roundtrip", "market.tick", "market.explicit", "market.default", "market.partial.uncollected", "market.full.over_request", "market.ttype.int64", "market.companion.between"]

D = Decimal
TOL = Fraction(1, 10**30)
DECIMALS = [6, 8, 18]


def _g(t):
    from demeter.uniswap.liquitidy_math import get_sqrt_ratio_at_tick

    return get_sqrt_ratio_at_tick(t)


def F(x) -> Fraction:
    return Fraction(x) if not isinstance(x, Fraction) else x


def close(impl, ref: Fraction, tol=TOL) -> bool:
    impl = F(impl)
    return abs(impl - ref) <= tol * max(abs(ref), abs(impl))


# ------------------------------------------------------------------ generators
@st.composite
def st_ticks(draw, spacing=1):
    lo_m, hi_m = -(T.MAX_TICK // spacing), T.MAX_TICK // spacing
    kind = draw(st.sampled_from(["adjacent", "narrow", "wide", "touch_min", "touch_max", "full", "any"]))
    if kind == "adjacent":
        a = draw(st.integers(lo_m, hi_m - 1))
        b = a + 1
    elif kind == "narrow":
        a = draw(st.integers(lo_m, hi_m - 1))
        b = min(hi_m, a + draw(st.integers(1, 50)))
    elif kind == "wide":
        a = draw(st.integers(lo_m, hi_m - 1))
        b = min(hi_m, a + draw(st.integers(50, 400000 // spacing + 51)))
    elif kind == "touch_min":
        a = lo_m
        b = draw(st.integers(lo_m + 1, hi_m))
    elif kind == "touch_max":
        b = hi_m
        a = draw(st.integers(lo_m, hi_m - 1))
    elif kind == "full":
        a, b = lo_m, hi_m
    else:
        a = draw(st.integers(lo_m, hi_m - 1))
        b = draw(st.integers(a + 1, hi_m))
    return a * spacing, b * spacing, kind


PRICE_KINDS = ["at_lower", "at_upper", "lower_minus1", "lower_plus1", "upper_minus1", "upper_plus1", "tick_inside", "between_inside", "far_below", "far_above", "min_ratio", "max_ratio", "near_centre"]


def resolve_price(kind, tl, tu, u, v):
    """u in [0,1e9) picks a tick, v in [0,1e9) a point inside a tick interval."""
    sa, sb = _g(tl), _g(tu)
    if kind == "at_lower":
        return sa
    if kind == "at_upper":
        return sb
    if kind == "lower_minus1":
        return max(T.MIN_SQRT_RATIO, sa - 1)
    if kind == "lower_plus1":
        return sa + 1
    if kind == "upper_minus1":
        return sb - 1
    if kind == "upper_plus1":
        return min(T.MAX_SQRT_RATIO, sb + 1)
    if kind in ("tick_inside", "between_inside", "near_centre"):
        t = tl + (tu - tl) * u // 10**9 if kind != "near_centre" else (tl + tu) // 2
        lo = _g(t)
        if kind == "tick_inside":
            return lo
        hi = _g(min(t + 1, T.MAX_TICK))
        return lo + (hi - lo) * v // 10**9
    if kind == "far_below":
        t = T.MIN_TICK + (tl - T.MIN_TICK) * u // 10**9
        return _g(t)
    if kind == "far_above":
        t = tu + (T.MAX_TICK - tu) * u // 10**9
        return _g(t)
    if kind == "min_ratio":
        return T.MIN_SQRT_RATIO
    return T.MAX_SQRT_RATIO


def st_wei(dec):
    top = 10 ** (12 + dec)
    return st.one_of(
        st.sampled_from([0, 1, 2, 10**dec, top]),
        st.integers(0, 10**6),
        st.builds(lambda m, e: min(top, m * 10**e), st.integers(1, 10**9), st.integers(0, 3 + dec)),
    )


@st.composite
def st_math(draw):
    d0, d1 = draw(st.sampled_from([(a, b) for a in DECIMALS for b in DECIMALS]))
    tl, tu, rk = draw(st_ticks())
    pk = draw(st.sampled_from(PRICE_KINDS))
    u, v = draw(st.integers(0, 10**9 - 1)), draw(st.integers(0, 10**9 - 1))
    w0, w1 = draw(st_wei(d0)), draw(st_wei(d1))
    dust0, dust1 = draw(st.sampled_from([0, 0, 0, 1, 999])), draw(st.sampled_from([0, 0, 0, 7, 500]))
    liq = draw(st.one_of(st.integers(0, 2**128), st.builds(lambda e, m: min(2**128, m << e), st.integers(0, 100), st.integers(1, 2**28)), st.sampled_from([1, 2**64, 2**128])))
    k = draw(st.integers(2, 1000))
    pk2 = draw(st.sampled_from(PRICE_KINDS))
    u2, v2 = draw(st.integers(0, 10**9 - 1)), draw(st.integers(0, 10**9 - 1))
    return {"d0": d0, "d1": d1, "tl": tl, "tu": tu, "rk": rk, "pk": pk, "u": u, "v": v, "w0": str(w0), "w1": str(w1), "dust0": dust0, "dust1": dust1, "liq": str(liq), "k": k, "pk2": pk2, "u2": u2, "v2": v2}


# ------------------------------------------------------------------ math body
def body_math(case, ctx: Ctx):
    from demeter.uniswap.core import V3CoreLib
    from demeter.uniswap.liquitidy_math import get_amounts, get_liquidity

    d0, d1, tl, tu = case["d0"], case["d1"], case["tl"], case["tu"]
    s = resolve_price(case["pk"], tl, tu, case["u"], case["v"])
    sa, sb = _g(tl), _g(tu)
    a0 = D(int(case["w0"])) / D(10**d0) + D(case["dust0"]) / D(10 ** (d0 + 3))
    a1 = D(int(case["w1"])) / D(10**d1) + D(case["dust1"]) / D(10 ** (d1 + 3))
    w0, w1 = int(case["w0"]), int(case["w1"])  # floor(amount * 10^d): dust is below one wei
    reg = R.region(s, sa, sb)
    info = {**case, "s": str(s), "a0": str(a0), "a1": str(a1)}

    L = ctx.guarded("math.get_liquidity", info, get_liquidity, s, tl, tu, a0, a1, d0, d1)
    if L is None:
        return
    Lstar = R.real_max_liquidity(s, sa, sb, w0, w1)
    ctx.check(isinstance(L, int) and L >= 0, "math.liquidity_type", f"liquidity {L!r}", info)
    ctx.check(L <= Lstar, f"math.overspend_real.{reg}", lambda: f"L={L} exceeds real-valued maximum {float(Lstar):.6g}", info)
    ctx.check(Lstar - L <= R.slack(s, sa, sb, w0), f"math.maximal.{reg}", lambda: f"L={L} short of max {float(Lstar):.9g} by {float(Lstar - L):.6g} > slack {float(R.slack(s, sa, sb, w0)):.6g}", info)

    used = ctx.guarded("math.get_amounts", info, get_amounts, s, tl, tu, L, d0, d1)
    if used is None:
        return
    u0, u1 = used
    ctx.check(u0 >= 0 and u1 >= 0, "math.negative", f"used {u0},{u1}", info)
    ctx.check(F(u0) <= F(a0) * (1 + TOL), f"math.overspend0.{reg}", lambda: f"used0 {u0} > offered {a0}", info)
    ctx.check(F(u1) <= F(a1) * (1 + TOL), f"math.overspend1.{reg}", lambda: f"used1 {u1} > offered {a1}", info)

    def amounts_checks(liq, tag):
        got = get_amounts(s, tl, tu, liq, d0, d1)
        r0, r1 = R.amounts_wei(s, sa, sb, liq)
        r0, r1 = r0 / 10**d0, r1 / 10**d1
        ctx.check(got[0] >= 0 and got[1] >= 0, "math.negative", f"amounts {got}", info)
        ctx.check(close(got[0], r0) and close(got[1], r1), f"math.closed_form.{reg}.{tag}", lambda: f"amounts {got} vs closed form {float(r0)!r},{float(r1)!r}", info)
        if reg == "below":
            ctx.check(got[1] == 0, "math.one_sided.below", f"token1 {got[1]} below range", info)
        elif reg == "above":
            ctx.check(got[0] == 0, "math.one_sided.above", f"token0 {got[0]} above range", info)
        elif liq > 0:
            ctx.check(got[0] > 0 and got[1] > 0, "math.two_sided.inside", f"amounts {got} inside range", info)
        return got

    amounts_checks(L, "minted")
    Lg = int(case["liq"])
    g1 = amounts_checks(Lg, "generic")
    k = case["k"]
    gk = get_amounts(s, tl, tu, Lg * k, d0, d1)
    ctx.check(close(gk[0], F(g1[0]) * k) and close(gk[1], F(g1[1]) * k), "math.proportional", lambda: f"amounts({k}L)={gk} vs {k}*{g1}", info)

    # monotone in price
    s2 = resolve_price(case["pk2"], tl, tu, case["u2"], case["v2"])
    lo_s, hi_s = min(s, s2), max(s, s2)
    m_lo = get_amounts(lo_s, tl, tu, Lg, d0, d1)
    m_hi = get_amounts(hi_s, tl, tu, Lg, d0, d1)
    ctx.check(m_lo[0] >= m_hi[0] and m_lo[1] <= m_hi[1], "math.monotone", lambda: f"s={lo_s}->{hi_s}: token0 {m_lo[0]}->{m_hi[0]}, token1 {m_lo[1]}->{m_hi[1]}", info)

    # V3CoreLib.new_position / close_position
    pool = world.uni_pool(d0, d1, True)
    np_ = ctx.guarded("math.new_position", info, V3CoreLib.new_position, pool, a0, a1, tl, tu, s)
    if np_ is not None:
        p0, p1, pl, pinfo = np_
        ctx.check(pl == L and p0 == u0 and p1 == u1, "math.new_position", lambda: f"new_position {p0},{p1},{pl} vs get_liquidity/get_amounts {u0},{u1},{L}", info)
        c0, c1 = V3CoreLib.close_position(pool, pinfo, pl, s)
        ctx.check(c0 == p0 and c1 == p1, "math.close_position", lambda: f"close {c0},{c1} vs open {p0},{p1}", info)

    labels = [f"region.{reg}", f"price.{case['pk']}", f"range.{case['rk']}", f"dec.{d0}.{d1}"]
    ctx.case(info, L > 0, labels=labels, key=[d0, d1, tl, tu, s, str(a0), str(a1), Lg, k, s2])


# ------------------------------------------------------------------ market round trip
@st.composite
def st_market(draw):
    d0, d1 = draw(st.sampled_from([(a, b) for a in DECIMALS for b in DECIMALS]))
    fee = draw(st.sampled_from(["0.05", "0.3", "1"]))
    spacing = {"0.05": 10, "0.3": 60, "1": 200}[fee]
    tl, tu, rk = draw(st_ticks(spacing))
    q = draw(st.booleans())
    pk = draw(st.sampled_from(["tick_inside", "between_inside", "near_centre", "at_lower", "at_upper", "far_below", "far_above", "lower_plus1", "upper_minus1"]))
    u, v = draw(st.integers(0, 10**9 - 1)), draw(st.integers(0, 10**9 - 1))
    big = lambda dec: st.builds(lambda m, e: m * 10**e, st.integers(1, 10**9), st.integers(max(0, dec - 6), 3 + dec))
    w0, w1 = draw(st.one_of(big(d0), big(d0), st_wei(d0))), draw(st.one_of(big(d1), big(d1), st_wei(d1)))
    bal_mode = draw(st.sampled_from(["ample", "exact", "ample", "short0", "short1"]))
    explicit = draw(st.sampled_from([False, True, "tick"]))
    part = draw(st.sampled_from([None, None, 1, 2, 3]))
    tk = draw(st.sampled_from(["tl", "tu", "tl+1", "tu-1", "mid", "0", "0", "-1", "1"]))
    # ticks as a caller often has them (read from a data frame: numpy integers); a second pool of the same broker at
    # another price, operated in the same bar (nothing of one market may leak into the other)
    extra = {"pcollect": draw(st.sampled_from([True, True, False])), "over": draw(st.sampled_from([None, None, "plus1", "double"])), "ttype": draw(st.sampled_from(["int", "int", "int64"])), "companion": draw(st.sampled_from([None, None, "before", "between"])), "ctick": draw(st.integers(-300000, 300000))}
    return {**extra, "tk": tk, "d0": d0, "d1": d1, "fee": fee, "tl": tl, "tu": tu, "rk": rk, "q": q, "pk": pk, "u": u, "v": v, "w0": str(w0), "w1": str(w1), "bal": bal_mode, "explicit": explicit, "part": part}


def _companion(broker, case):
    """A second pool of the same broker (own tokens, own price, same bar) that is operated at its default price
    around the operations under test; its own round trip must be exact too."""
    from demeter import MarketInfo, TokenInfo
    from demeter.uniswap import UniLpMarket, UniswapMarketStatus, UniV3Pool

    ta, tb = TokenInfo("TC18", 18), TokenInfo("TD6", 6)
    pool = UniV3Pool(ta, tb, 0.3, tb)
    m2 = UniLpMarket(MarketInfo("uni2"), pool)
    broker.add_market(m2)
    ct = case["ctick"]
    m2.set_market_status(UniswapMarketStatus(timestamp=None, data=pd.Series(data=[0, 0, 10**18, ct, m2.tick_to_price(ct)], index=["inAmount0", "inAmount1", "currentLiquidity", "closeTick", "price"])), price=None)
    broker.set_balance(ta, D(1000))
    broker.set_balance(tb, D(1000))
    lo, hi = (ct // 60) * 60 - 600, (ct // 60) * 60 + 600
    state = {}

    def step(what, ctx=None, info=None):
        if what == "add":
            b, q_ = m2._convert_pair(D(1000), D(1000))
            state["pos"], bu, qu, state["liq"] = m2.add_liquidity_by_tick(lo, hi, b, q_)
            state["used"] = m2._convert_pair(bu, qu)
        elif what == "remove" and "pos" in state:
            state["got"] = m2._convert_pair(*m2.remove_liquidity(state.pop("pos")))
        elif what == "check":
            if "pos" in state:
                step("remove")
            ctx.check(state["liq"] > 0 and state["used"][0] > 0 and state["used"][1] > 0, "market.companion", lambda: f"companion pool at tick {ct}, range [{lo}, {hi}]: in-range mint used {state['used']}, liquidity {state['liq']}", info)
            ctx.check(state["got"] == state["used"], "market.companion", lambda: f"companion pool at tick {ct}: deposited {state['used']}, withdrew {state['got']} at the same price", info)

    return step


def body_market(case, ctx: Ctx):
    from demeter.uniswap.helper import base_unit_price_to_sqrt_price_x96, sqrt_price_x96_to_base_unit_price

    d0, d1, tl, tu, q = case["d0"], case["d1"], case["tl"], case["tu"], case["q"]
    s = resolve_price(case["pk"], tl, tu, case["u"], case["v"])
    a0 = D(int(case["w0"])) / D(10**d0)
    a1 = D(int(case["w1"])) / D(10**d1)
    price = sqrt_price_x96_to_base_unit_price(s, d0, d1, q)
    mult = {"ample": (D(3), D(3)), "exact": (D(1), D(1)), "short0": (D("0.5"), D(3)), "short1": (D(3), D("0.5"))}[case["bal"]]
    b0, b1 = a0 * mult[0], a1 * mult[1]
    broker, market = world.uni_static(d0, d1, q, case["fee"], tick=0, price=price, bal0=b0, bal1=b1)
    t0, t1 = market.token0, market.token1
    base_max, quote_max = market._convert_pair(a0, a1)
    kw = {"sqrt_price_x96": s} if case["explicit"] is True else {}
    s_eff = s if case["explicit"] is True else base_unit_price_to_sqrt_price_x96(price, d0, d1, q)
    add_kw = dict(kw)
    if case["explicit"] == "tick":
        # the deposit price is given as an explicit tick (incl. 0 and -1) while the market itself stands at another price
        tk = {"tl": tl, "tu": tu, "tl+1": tl + 1, "tu-1": tu - 1, "mid": (tl + tu) // 2, "0": 0, "-1": -1, "1": 1}[case.get("tk", "0")]
        s_eff = _g(tk)
        add_kw = {"tick": tk}
        kw = {"sqrt_price_x96": s_eff}
    info = {**case, "s": str(s), "price": str(price)}
    if case.get("ttype", "int") != "int":
        import numpy as np

        tl, tu = np.int64(tl), np.int64(tu)
        if "tick" in add_kw:
            add_kw["tick"] = np.int64(add_kw["tick"])
    comp = _companion(broker, case) if case.get("companion") else None
    if comp and case["companion"] == "before":
        comp("add")
    try:
        pos, base_used, quote_used, liq = market.add_liquidity_by_tick(tl, tu, base_max, quote_max, **add_kw)
    except Exception as e:  # rejected (insufficient balance ...): atomicity is C04's business
        ctx.case(info, False, labels=[f"market.rejected.{type(e).__name__}"])
        return
    tl, tu = int(tl), int(tu)
    if comp:
        comp("add" if case["companion"] == "between" else "remove")
    u0, u1 = market._convert_pair(base_used, quote_used)  # involution: base/quote -> token0/token1
    ctx.check(F(u0) <= F(a0) * (1 + TOL) and F(u1) <= F(a1) * (1 + TOL), "market.overspend", lambda: f"used {u0},{u1} > offered {a0},{a1}", info)
    ctx.check(u0 >= 0 and u1 >= 0 and liq >= 0, "market.negative", f"{u0},{u1},{liq}", info)
    w0i, w1i = int(case["w0"]), int(case["w1"])
    sa, sb = _g(tl), _g(tu)
    Lstar = R.real_max_liquidity(s_eff, sa, sb, w0i, w1i)
    ctx.check(liq <= Lstar and Lstar - liq <= R.slack(s_eff, sa, sb, w0i), "market.maximal", lambda: f"L={liq} vs real max {float(Lstar):.9g}", info)
    after0, after1 = broker.get_token_balance(t0), broker.get_token_balance(t1)
    snapped0 = after0 == 0 and u0 != b0
    snapped1 = after1 == 0 and u1 != b1
    if not snapped0:
        ctx.check(close(after0, F(b0) - F(u0)) or (b0 == u0 and after0 == 0), "market.wallet_debit", lambda: f"token0 {b0} - {u0} -> {after0}", info)
    if not snapped1:
        ctx.check(close(after1, F(b1) - F(u1)) or (b1 == u1 and after1 == 0), "market.wallet_debit", lambda: f"token1 {b1} - {u1} -> {after1}", info)
    if liq == 0:
        ctx.case(info, False, labels=["market.zero_liquidity"])
        return
    part = case["part"]
    if part:
        # partial removals must add up to the deposit
        piece = liq // (part + 1)
        tot0 = tot1 = D(0)
        pc = case.get("pcollect", True)
        for _ in range(part):
            g = market.remove_liquidity(pos, liquidity=piece, collect=pc, **kw) if piece > 0 else (D(0), D(0))
            x0, x1 = market._convert_pair(*g)
            tot0, tot1 = tot0 + x0, tot1 + x1
        if pc:
            g = market.remove_liquidity(pos, **kw)
            x0, x1 = market._convert_pair(*g)
            tot0, tot1 = tot0 + x0, tot1 + x1
        else:
            # nothing is collected on the way: every call returns what *it* took out of the position; one collect at the end pays all
            g = market.remove_liquidity(pos, collect=False, remove_dry_pool=False, **kw)
            x0, x1 = market._convert_pair(*g)
            tot0, tot1 = tot0 + x0, tot1 + x1
            c0, c1 = market._convert_pair(*market.collect_fee(pos))
            ctx.check(close(c0, F(u0), Fraction(1, 10**28)) and close(c1, F(u1), Fraction(1, 10**28)), "market.collect_all", lambda: f"collected {c0},{c1} after uncollected removals vs deposited {u0},{u1}", info)
        ctx.check(close(tot0, F(u0), Fraction(1, 10**28)) and close(tot1, F(u1), Fraction(1, 10**28)), "market.partial_sum", lambda: f"partial removals (collect={pc}) {tot0},{tot1} vs deposited {u0},{u1}", info)
    else:
        # asking for more liquidity than the position holds takes out what it holds (documented clamp)
        over = {None: None, "plus1": int(liq) + 1, "double": int(liq) * 2}[case.get("over")]
        g = market.remove_liquidity(pos, **kw) if over is None else market.remove_liquidity(pos, liquidity=over, **kw)
        x0, x1 = market._convert_pair(*g)
        ctx.check(x0 == u0 and x1 == u1, "market.roundtrip_exact", lambda: f"withdrawn {x0},{x1} vs deposited {u0},{u1}", info)
    ctx.check(pos not in market.positions, "market.position_left", "position not removed after full withdrawal and collect", info)
    end0, end1 = broker.get_token_balance(t0), broker.get_token_balance(t1)
    tol = Fraction(1, 10**28)
    if not snapped0:
        ctx.check(close(end0, F(b0), tol), "market.wallet_restore", lambda: f"token0 wallet {b0} -> {end0}", info)
    else:
        ctx.check(abs(F(end0) - F(b0)) <= Fraction(1, 10**5) * F(b0), "market.wallet_restore", lambda: f"token0 wallet {b0} -> {end0} (snap)", info)
    if not snapped1:
        ctx.check(close(end1, F(b1), tol), "market.wallet_restore", lambda: f"token1 wallet {b1} -> {end1}", info)
    else:
        ctx.check(abs(F(end1) - F(b1)) <= Fraction(1, 10**5) * F(b1), "market.wallet_restore", lambda: f"token1 wallet {b1} -> {end1} (snap)", info)
    if comp:
        comp("check", ctx, info)
    ctx.case(info, True, labels=["market.roundtrip", f"market.ttype.{case.get('ttype', 'int')}", f"market.companion.{case.get('companion')}", f"market.q{int(q)}", f"market.{'tick' if case['explicit'] == 'tick' else 'explicit' if case['explicit'] else 'default'}", f"market.price.{case['pk']}", ("market.partial.uncollected" if not case.get("pcollect", True) else "market.partial") if part else ("market.full.over_request" if case.get("over") else "market.full")] + (["market.snap"] if snapped0 or snapped1 else []))


BODIES = {"math": (st_math, body_math), "market": (st_market, body_market)}


def shards(tier, seed):
    n_math = 6000 if tier == "quick" else 150000
    n_mkt = 1500 if tier == "quick" else 30000
    out = []
    for i in range(12):
        out.append({"sub": "math", "idx": i, "n": n_math, "seed": derive_seed(seed, PROPERTY, "math", i)})
    for i in range(4):
        out.append({"sub": "market", "idx": i, "n": n_mkt, "seed": derive_seed(seed, PROPERTY, "market", i)})
    return out


def run_shard(spec):
    ctx = Ctx(PROPERTY, spec["sub"])
    strat, body = BODIES[spec["sub"]]
    v = run_given(ctx, strat(), body, spec["n"], spec["seed"])
    return ctx.result(v)


def replay(rec):
    return replay_body(PROPERTY, BODIES[rec["sub"]][1], rec["case"], rec["sub"])
