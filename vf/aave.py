"""Aave world: real AaveV3Market driven bar by bar from generated plain data, plus the Fraction reference.

A *case* (plain data, JSON-able) is
    {"tokens": [{"name","dec","ltv","lt","bonus","coll","borrow"}...],      # ltv/lt in bp, bonus in bp above 10000
     "wallet": {name: "amount"},
     "bars":   [{"rows": {name: {"li","bi","lr","br"}}, "prices": {name: "p"}, "ops": [op...]}...]}
    op = ["supply", tok, amt, collateral] | ["withdraw", tok, amt] | ["borrow", tok, amt] |
         ["repay", tok, amt, with_collateral, coll_tok|None] | ["flag", tok, bool] | ["read", view]
    amt = None | ["abs", "1.5"] | ["wallet", "0.5"] | ["supply", "1"] | ["debt", "1.000001"] |
          ["maxborrow", f] | ["maxwithdraw", f] | ["collsupply", f]   (fractions of the current holding / limit / the
          value of the collateral supply used for repayment, resolved at run time)

The executor calls an observer around every operation, bar refresh and update(); the checks C10..C13 (and the
Aave part of C03/C04) are observers with different oracles.
"""
from __future__ import annotations

import os
from decimal import Decimal
from fractions import Fraction

import pandas as pd

D = Decimal
F = Fraction
INF = float("inf")

CSV_COLS = [
    "underlyingAsset", "name", "symbol", "decimals", "baseLTVasCollateral", "reserveLiquidationThreshold",
    "reserveLiquidationBonus", "reserveFactor", "usageAsCollateralEnabled", "borrowingEnabled", "optimalUsageRatio",
    "variableRateSlope1", "variableRateSlope2", "baseVariableBorrowRate", "supplyCap", "borrowCap",
    "borrowableInIsolation", "flashLoanEnabled",
]


def fr(x) -> Fraction:
    if isinstance(x, Fraction):
        return x
    if isinstance(x, Decimal):
        return Fraction(x)
    if isinstance(x, int):
        return Fraction(x)
    return Fraction(str(x))


_RISK_CACHE = {}


def risk_file(tokens) -> str:
    """Write a risk-parameter CSV in the format of the shipped ones; returns its path (cached per content)."""
    key = tuple((t["name"], t["ltv"], t["lt"], t["bonus"], t["coll"], t["borrow"]) for t in tokens)
    if key in _RISK_CACHE and os.path.exists(_RISK_CACHE[key]):
        return _RISK_CACHE[key]
    work = os.environ.get("VF_WORK", ".")
    path = os.path.join(work, f"risk-{os.getpid()}-{len(_RISK_CACHE)}.csv")
    rows = []
    for i, t in enumerate(tokens):
        rows.append(
            {
                "underlyingAsset": f"0x{i:040x}", "name": "USD Coin" if t["name"] == "USDC" else t["name"] + " token", "symbol": t["name"], "decimals": t["dec"],
                "baseLTVasCollateral": t["ltv"], "reserveLiquidationThreshold": t["lt"],
                "reserveLiquidationBonus": 10000 + t["bonus"], "reserveFactor": 1000,
                "usageAsCollateralEnabled": bool(t["coll"]), "borrowingEnabled": bool(t["borrow"]),
                "optimalUsageRatio": 9 * 10**26, "variableRateSlope1": 4 * 10**25, "variableRateSlope2": 6 * 10**26,
                "baseVariableBorrowRate": 0, "supplyCap": 10**9, "borrowCap": 10**9, "borrowableInIsolation": True,
                "flashLoanEnabled": True,
            }
        )
    pd.DataFrame(rows, columns=CSV_COLS).to_csv(path, index=False)
    _RISK_CACHE[key] = path
    return path


VIEWS = ["supplies", "borrows", "supplies_value", "borrows_value", "collateral_value", "totals", "health_factor", "ltv",
         "max_ltv", "liquidation_threshold", "apys", "balance"]


class Observer:
    def bar_start(self, w, i): ...
    def before_op(self, w, op): ...
    def after_op(self, w, op, outcome): ...
    def before_update(self, w): ...
    def on_action(self, w, action): ...
    def after_update(self, w, error): ...


class World:
    """One real broker + AaveV3Market; `tok[name]` are TokenInfo objects."""

    def __init__(self, case, observer: Observer | None = None):
        from demeter import Broker, MarketInfo, MarketTypeEnum, TokenInfo
        from demeter.aave import AaveV3Market

        self.case = case
        self.obs = observer or Observer()
        self.tok = {t["name"]: TokenInfo(t["name"], t["dec"]) for t in case["tokens"]}
        self.par = {t["name"]: t for t in case["tokens"]}
        self.actions = []
        self.broker = Broker(allow_negative_balance=bool(case.get("allow_negative", False)), record_action_callback=self._on_action)
        self.market = AaveV3Market(MarketInfo("aave", MarketTypeEnum.aave_v3), risk_file(case["tokens"]), [self.tok[n] for n in case.get("listed") or self.tok])
        self.broker.add_market(self.market)
        for n, a in case["wallet"].items():
            self.broker.set_balance(self.tok[n], D(a))
        self.bar = -1
        self.rows = None
        self.prices = None
        self.in_update = False

    def _on_action(self, a):
        self.actions.append(a)
        self.obs.on_action(self, a)

    # ---- bars
    def set_bar(self, i):
        from demeter.aave import AaveMarketStatus

        b = self.case["bars"][i]
        self.bar = i
        self.rows = b["rows"]
        self.prices = b["prices"]
        idx = pd.MultiIndex.from_product([list(self.rows), ["liquidity_rate", "stable_borrow_rate", "variable_borrow_rate", "liquidity_index", "variable_borrow_index"]])
        vals = []
        for n in self.rows:
            r = self.rows[n]
            vals += [D(r["lr"]), D(r["br"]), D(r["br"]), D(r["li"]), D(r["bi"])]
        ts = pd.Timestamp("2024-03-05") + pd.Timedelta(minutes=i)
        price = pd.Series({n: D(p) for n, p in self.prices.items()})
        self.market.set_market_status(AaveMarketStatus(ts, pd.Series(vals, index=idx)), price=price)
        self.obs.bar_start(self, i)

    def update(self):
        self.obs.before_update(self)
        err = None
        self.in_update = True
        try:
            self.market.update()
        except Exception as e:  # noqa: reported by the observer
            err = e
        self.in_update = False
        self.obs.after_update(self, err)
        return err

    # ---- raw state
    def raw(self):
        m = self.market
        return {
            "sup": {t.name: (m._supplies[t].base_amount, bool(m._supplies[t].collateral)) for t in m._supplies},
            "bor": {t.name: m._borrows[t].base_amount for t in m._borrows},
            "wal": {t.name: a.balance for t, a in self.broker.assets.items()},
        }

    def li(self, n):
        return fr(self.rows[n]["li"])

    def bi(self, n):
        return fr(self.rows[n]["bi"])

    def px(self, n):
        return fr(self.prices[n])

    # ---- amounts
    def resolve(self, op):
        """Resolve the relative amount of an op to a Decimal (or None)."""
        kind, tok = op[0], op[1]
        spec = op[2]
        if spec is None:
            return None
        base, f = spec
        m = self.market
        t = self.tok[tok]
        if base == "abs":
            return D(f)
        if base in ("debtq", "supplyq"):
            # the whole position as the caller reads it, rounded to the token's 18 decimals (up or down)
            import decimal

            held = (m._borrows[t].base_amount * D(self.rows[tok]["bi"]) if t in m._borrows else D(1)) if base == "debtq" else (m._supplies[t].base_amount * D(self.rows[tok]["li"]) if t in m._supplies else D(1))
            with decimal.localcontext() as c:
                c.prec = 60
                return D(held).quantize(D("1e-18"), rounding={"up": decimal.ROUND_UP, "down": decimal.ROUND_DOWN}[f])
        f = D(f)
        if base == "wallet":
            return self.broker.assets[t].balance * f if t in self.broker.assets else D(0)
        if base == "supply":
            return (m._supplies[t].base_amount * D(self.rows[tok]["li"]) * f) if t in m._supplies else f
        if base == "debt":
            return (m._borrows[t].base_amount * D(self.rows[tok]["bi"]) * f) if t in m._borrows else f
        if base == "collsupply":
            # repay-with-collateral: a fraction of what the chosen collateral supply is worth, in debt-token units
            c = self.tok[op[4] or tok]
            if c not in m._supplies:
                return f
            return m._supplies[c].base_amount * D(self.rows[c.name]["li"]) * f * D(self.prices[c.name]) / D(self.prices[tok])
        if base == "maxborrow":
            return m.get_max_borrow_amount(t) * f
        if base == "maxwithdraw":
            return m.get_max_withdraw_amount(t) * f
        raise ValueError(base)

    def select(self, sel):
        """Resolve a run-time token selector ("@debt:1", "@supplied:0", "@collateral:2", "@funded:0") to a token name."""
        if sel is None or not sel.startswith("@"):
            return sel
        what, _, k = sel[1:].partition(":")
        m = self.market
        names = [t["name"] for t in self.case["tokens"]]
        if what == "debt":
            pool = [n for n in names if self.tok[n] in m._borrows]
        elif what == "supplied":
            pool = [n for n in names if self.tok[n] in m._supplies]
        elif what == "collateral":
            pool = [n for n in names if self.tok[n] in m._supplies and m._supplies[self.tok[n]].collateral]
        elif what == "funded":
            pool = [n for n in names if self.tok[n] in self.broker.assets and self.broker.assets[self.tok[n]].balance > 0]
        else:
            raise ValueError(sel)
        pool = pool or names
        return pool[int(k or 0) % len(pool)]

    def apply(self, op):
        """Execute one op against the real market. Returns ("ok", value) / ("rejected", exception)."""
        m = self.market
        kind = op[0]
        if kind != "read":
            op = list(op)
            op[1] = self.select(op[1])
            if kind == "repay" and len(op) > 4:
                op[4] = self.select(op[4])
        try:
            amount = self.resolve(op) if kind in ("supply", "withdraw", "borrow", "repay") else None
        except Exception as e:  # noqa  (e.g. helper on a token that is not supplied)
            return ("unresolved", e), None
        self.obs.before_op(self, (op, amount))
        try:
            if kind == "supply":
                r = m.supply(self.tok[op[1]], amount, op[3])
            elif kind == "withdraw":
                r = m.withdraw(self.tok[op[1]], amount)
            elif kind == "borrow":
                r = m.borrow(self.tok[op[1]], amount)
            elif kind == "repay":
                r = m.repay(self.tok[op[1]], amount, op[3], self.tok[op[4]] if op[4] else None)
            elif kind == "flag":
                r = m.change_collateral(self.tok[op[1]], op[2])
            elif kind == "read":
                r = read_view(m, op[1])
            else:
                raise ValueError(kind)
            out = ("ok", r)
        except Exception as e:  # noqa: a rejected user operation is an outcome
            out = ("rejected", e)
        self.obs.after_op(self, (op, amount), out)
        return out, amount

    def run(self):
        for i, b in enumerate(self.case["bars"]):
            self.set_bar(i)
            for op in b["ops"]:
                self.apply(op)
            self.update()


def read_view(m, name):
    if name == "supplies":
        return dict(m.supplies)
    if name == "borrows":
        return dict(m.borrows)
    if name == "supplies_value":
        return dict(m.supplies_value)
    if name == "borrows_value":
        return dict(m.borrows_value)
    if name == "collateral_value":
        return dict(m.collateral_value)
    if name == "totals":
        return (m.total_supply_value, m.total_borrows_value, m.total_collateral_value)
    if name == "health_factor":
        return m.health_factor
    if name == "ltv":
        return m.ltv
    if name == "max_ltv":
        return m.max_ltv
    if name == "liquidation_threshold":
        return m.liquidation_threshold
    if name == "apys":
        return (m.supply_apy, m.borrow_apy, m.total_apy)
    if name == "balance":
        return m.get_market_balance()
    raise ValueError(name)


# ------------------------------------------------------------------------------------------------ reference
class Ref:
    """From-scratch recomputation (exact rationals) from a raw snapshot, the bar's rows / prices and the risk table."""

    def __init__(self, w: World, raw=None):
        raw = raw or w.raw()
        self.w = w
        self.sup_amt = {n: fr(b) * w.li(n) for n, (b, c) in raw["sup"].items()}
        self.flag = {n: c for n, (b, c) in raw["sup"].items()}
        self.bor_amt = {n: fr(b) * w.bi(n) for n, b in raw["bor"].items()}
        self.sup_val = {n: a * w.px(n) for n, a in self.sup_amt.items()}
        self.bor_val = {n: a * w.px(n) for n, a in self.bor_amt.items()}
        self.col_val = {n: v for n, v in self.sup_val.items() if self.flag[n]}
        self.S = sum(self.sup_val.values(), F(0))
        self.B = sum(self.bor_val.values(), F(0))
        self.C = sum(self.col_val.values(), F(0))
        self.lt_sum = sum((v * F(w.par[n]["lt"], 10000) for n, v in self.col_val.items()), F(0))
        self.ltv_sum = sum((v * F(w.par[n]["ltv"], 10000) for n, v in self.col_val.items()), F(0))
        self.wal = {n: fr(b) for n, b in raw["wal"].items()}

    @property
    def hf(self):
        return INF if self.B == 0 else self.lt_sum / self.B

    @property
    def max_ltv(self):
        return INF if self.C == 0 else self.ltv_sum / self.C

    @property
    def lt(self):
        return INF if self.C == 0 else self.lt_sum / self.C

    @property
    def ltv(self):
        return INF if self.S == 0 else self.B / self.S

    def nv(self):
        """wallet + supplies - debts, in USD."""
        return sum((b * self.w.px(n) for n, b in self.wal.items()), F(0)) + self.S - self.B


def close(a, b, rel=F(1, 10**25), abs_=F(0)):
    """a (Decimal / number from the implementation) equals the rational b within rel*|b| + abs_."""
    if b == INF or b == -INF:
        return a == D("inf") or a == INF
    try:
        if a != a or a in (D("inf"), D("-inf")):
            return False
    except Exception:  # noqa
        return False
    a = fr(a)
    return abs(a - b) <= rel * abs(b) + abs_
