"""C19 — strategies run by the backtest manager do not influence one another."""
import contextlib
import io
import json
import os
import subprocess
import sys

from hypothesis import strategies as st

from vf import multi
from vf.engine import Ctx, HarnessError, case_hash, derive_seed, replay_body, run_given
from vf.gen.multi import st_prog, st_universe

PROPERTY = "C19"
RULE = (
    "a generated universe (market mix as C01, 1/2/5/15/60-minute bars) and 1-4 scripted strategies with generated programs "
    "(incl. ones that leave positions, debts, vaults, option holdings open), a generated order and a generated worker count: "
    "the real BacktestManager runs them (a) sequentially in-process (threads = 1) and (b) on its forked pool path "
    "(threads 2..n, in a fresh harness subprocess); every strategy writes its account history, outcomes, records and final "
    "raw positions from finalize(); each must equal the result of running that strategy alone through a manager with fresh "
    "inputs. Non-trivial = >= 2 strategies of which one that runs earlier changes market state."
)
ASSUMPTIONS = [
    "OS scheduling between pool workers is not controlled by the harness; independence on the forked path is sampled over worker counts and orders",
    "the strategies passed to one manager are distinct objects (the same object twice is one strategy run twice)",
]
MIN_NONTRIVIAL = {"quick": 150, "thorough": 3000}
REQUIRED_LABELS = ["path.sequential", "path.forked", "strategies.3+", "earlier_leaves_positions", "interval.gt1", "threads.lt.n", "threads.eq.n", "preconfigured_markets"]


@st.composite
def st_case(draw):
    u = draw(st_universe("loop", max_bars=5, max_ops=6))
    nb = (u["start"] + u["n"] - 1) // u["k"] - u["start"] // u["k"] + 1
    if draw(st.integers(0, 2)) == 0:
        # markets that already hold positions when the configuration is handed to the manager
        u["preconfig"] = draw(st_prog(u["order"], 1, "frozen", 3))
    ns = draw(st.integers(1, 4))
    progs = [u["prog"]] + [draw(st_prog(u["order"], nb, "loop", 6)) for _ in range(ns - 1)]
    order = list(draw(st.permutations(list(range(ns)))))
    return {"u": u, "progs": progs, "order": order, "threads": draw(st.integers(2, max(2, ns))), "forked": draw(st.integers(0, 3)) == 0}


def _run_inproc(case, progs, order, out):
    from demeter import BacktestManager

    cfg, data, bk = multi.manager_inputs(case)
    strategies = [multi.managed_script(case, progs[i], os.path.join(out, f"s{i}.json"), i) for i in order]
    with contextlib.redirect_stdout(io.StringIO()), contextlib.redirect_stderr(io.StringIO()):
        BacktestManager(cfg, data, strategies, bk, threads=1).run()
    # what every strategy object looks like once the whole manager run is over (a later strategy must not reach back)
    from vf._managed import _norm, _strkeys
    from vf.engine import plain

    after = {}
    for i, s_ in zip(order, strategies):
        if hasattr(s_, "_vf_view"):
            after[i] = {"final": _norm(plain(_strkeys(multi.raw_state(s_._vf_view)))), "calls": getattr(s_, "_vf_calls", None)}
    return after


def _load(out, i):
    p = os.path.join(out, f"s{i}.json")
    if not os.path.exists(p):
        return None
    with open(p) as f:
        return json.load(f)


def _diff(a, b):
    from vf.checks.c02 import first_diff

    return first_diff(a, b)


_counter = [0]


def body(case, ctx: Ctx):
    uc = case["u"]
    progs, order = case["progs"], case["order"]
    ns = len(progs)
    work = os.environ.get("VF_WORK", ".")
    _counter[0] += 1
    base = os.path.join(work, f"c19-{os.getpid()}-{_counter[0]}")
    labels = set()
    if uc["k"] > 1:
        labels.add("interval.gt1")
    if ns >= 3:
        labels.add("strategies.3+")
    if uc.get("preconfig"):
        labels.add("preconfigured_markets")
    alone = {}
    for i in range(ns):
        d = f"{base}-alone{i}"
        os.makedirs(d, exist_ok=True)
        r = ctx.guarded("alone", case, _run_inproc, uc, progs, [i], d)
        alone[i] = _load(d, i)
    if any(v is None for v in alone.values()):
        # a strategy that cannot even run alone (the loop died): nothing to compare
        ctx.case(case, False, sorted(labels | {"alone.failed"}))
        _cleanup(base)
        return
    leaves = {i: any(_nonempty(v) for k, v in alone[i]["final"].items() if k != "wallet") for i in range(ns)}
    # (a) sequential, in-process
    d = f"{base}-seq"
    os.makedirs(d, exist_ok=True)
    after = ctx.guarded("sequential", case, _run_inproc, uc, progs, order, d) or {}
    labels.add("path.sequential")
    for pos, i in enumerate(order):
        got = _load(d, i)
        if got is not None and i in after:
            ctx.check(after[i]["final"] == got["final"] and after[i]["calls"] == got["calls"], "sequential.reached_back", lambda: f"strategy {i} (position {pos} of {order}) changed after its own run had finished: hook calls {got['calls']} -> {after[i]['calls']}, positions {_diff(got['final'], after[i]['final'])}", case)
        ctx.check(got is not None, "sequential.missing", lambda: f"strategy {i} (position {pos} of {order}) produced no result on the sequential path", case)
        if got is not None:
            ctx.check(got == alone[i], "sequential.differs", lambda: f"strategy {i} run at position {pos} of {order} (threads=1) differs from running it alone: {_diff(alone[i], got)}", case)
    # (b) forked pool path, in a fresh process
    if case["forked"] and ns >= 2:
        d = f"{base}-fork"
        os.makedirs(d, exist_ok=True)
        jobfile = os.path.join(d, "jobs.json")
        with open(jobfile, "w") as f:
            json.dump([{"case": uc, "progs": progs, "order": order, "threads": min(case["threads"], ns), "out": d}], f)
        env = dict(os.environ)
        p = subprocess.run([sys.executable, "-W", "ignore", "-m", "vf.c19_runner", jobfile], env=env, capture_output=True, text=True, timeout=600)
        status = json.load(open(jobfile + ".status")) if os.path.exists(jobfile + ".status") else [f"runner died: rc={p.returncode} {p.stderr[-400:]}"]
        if status[0] != "ok":
            raise HarnessError(f"c19 runner: {status[0][-800:]}")
        labels.add("path.forked")
        labels.add("threads.eq.n" if min(case["threads"], ns) == ns else "threads.lt.n")
        for pos, i in enumerate(order):
            got = _load(d, i)
            ctx.check(got is not None, "forked.missing", lambda: f"strategy {i} produced no result on the forked path (threads={case['threads']})", case)
            if got is not None:
                ctx.check(got == alone[i], "forked.differs", lambda: f"strategy {i} on the forked path (order {order}, threads={case['threads']}) differs from running it alone: {_diff(alone[i], got)}", case)
    earlier_leaves = any(leaves[i] for i in order[:-1])
    if earlier_leaves:
        labels.add("earlier_leaves_positions")
    _cleanup(base)
    ctx.case(case, ns >= 2 and earlier_leaves, sorted(labels), key=[uc["order"], uc["k"], progs, order, case["threads"]])


def _nonempty(v):
    if isinstance(v, dict):
        return any(_nonempty(x) for x in v.values()) if v else False
    if isinstance(v, list):
        return any(_nonempty(x) for x in v)
    if v is None or isinstance(v, bool):
        return False
    try:
        return float(v) != 0
    except (TypeError, ValueError):
        return bool(v)


def _cleanup(base):
    import glob
    import shutil

    for d in glob.glob(base + "-*"):
        shutil.rmtree(d, ignore_errors=True)


def shards(tier, seed):
    n = 40 if tier == "quick" else 800
    return [{"sub": "manager", "idx": i, "n": n, "seed": derive_seed(seed, PROPERTY, "manager", i)} for i in range(16)]


def run_shard(spec):
    ctx = Ctx(PROPERTY, spec["sub"])
    v = run_given(ctx, st_case(), body, spec["n"], spec["seed"])
    return ctx.result(v)


def replay(rec):
    return replay_body(PROPERTY, body, rec["case"], rec["sub"])
