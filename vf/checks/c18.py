"""C18 — time triggers fire on exactly the bars their specification denotes (through the real bar loop)."""
from datetime import timedelta

import pandas as pd
from hypothesis import strategies as st

from vf import world
from vf.engine import Ctx, derive_seed, replay_body, run_given

PROPERTY = "C18"
RULE = (
    "bar grid (start minute anywhere in two days, bar interval in {1,2,5,15,60} min, 1..300 bars) x 1..4 triggers of "
    "kinds AtTime / AtTimes / TimeRange / TimeRanges / Period / Periods with parameters placed on, next to and outside "
    "the grid (seconds, duplicates, unordered lists, overlapping and empty ranges, delays, immediate flag, coinciding "
    "periods), added in initialize() or at a later bar, with extra kwargs; run through Actuator.run and compared with a "
    "brute-force set denotation over the independently computed grid. Non-trivial = expected firing set non-empty and "
    "not every bar; distinct by (grid, trigger spec)."
)
ASSUMPTIONS = [
    "periods and delays of Period(s) triggers are multiples of the bar interval (off-grid ones are generated but only "
    "checked for at-most-once-per-bar calls and argument passing)",
    "list-valued trigger parameters are non-empty",
]
MIN_NONTRIVIAL = {"quick": 1500, "thorough": 30000}
REQUIRED_LABELS = ["kind.at", "kind.ats", "kind.range", "kind.ranges", "kind.period", "kind.periods", "periods.coincide", "added_late", "interval.60", "added_by.trigger_rebind", "added_by.trigger_append"]

INTERVALS = [1, 2, 5, 15, 60]
_FRAME_CACHE = {}


def base_frame(pool):
    """Constant-tick frame over three days, built once per process and sliced per case."""
    key = id(pool)
    if "df" not in _FRAME_CACHE:
        _FRAME_CACHE["df"] = world.uni_frame(pool, 0, [200000] * (3 * 1440))
    return _FRAME_CACHE["df"]


# ------------------------------------------------------------------ generators
@st.composite
def st_case(draw):
    interval = draw(st.sampled_from(INTERVALS))
    nb = draw(st.one_of(st.integers(1, 12), st.integers(1, 60), st.integers(1, 300)))
    nb = min(nb, max(1, 1500 // interval))
    start_min = draw(st.integers(0, 1440 + 600))
    n_min = draw(st.integers(max(1, (nb - 1) * interval), nb * interval))
    first_day = (start_min // 1440) * 1440
    lo = first_day + ((start_min - first_day) // interval) * interval
    nbars = ((start_min + n_min - 1 - first_day) // interval * interval + first_day - lo) // interval + 1

    def t_on_grid():
        j = draw(st.integers(-2, nbars + 2))
        off = draw(st.sampled_from([0, 0, 0, 0, 1, interval - 1]))
        return lo + j * interval + off

    trigs = []
    for _ in range(draw(st.integers(1, 4))):
        kind = draw(st.sampled_from(["at", "ats", "range", "ranges", "period", "periods"]))
        spec = {"kind": kind, "kw": draw(st.sampled_from([{}, {"x": 1}, {"x": 7, "tag": "a"}])), "add_at": draw(st.sampled_from([None, None, None, 0, 1, 3, nbars // 2])), "sec": draw(st.sampled_from([0, 0, 30]))}
        if spec["add_at"] is not None and spec["add_at"] >= nbars:
            spec["add_at"] = None
        # a trigger may also be registered by the action of another trigger: appended to the list, or by assigning a new list
        spec["add_via"] = draw(st.sampled_from(["before", "before", "trigger_append", "trigger_rebind"])) if spec["add_at"] is not None and kind in ("at", "ats", "range", "ranges") else "before"
        if kind == "at":
            spec["t"] = t_on_grid()
        elif kind == "ats":
            spec["ts"] = [t_on_grid() for _ in range(draw(st.integers(1, 5)))]
        elif kind == "range":
            a = t_on_grid()
            spec["r"] = [a, a + draw(st.integers(-2, 8)) * interval + draw(st.sampled_from([0, 0, 1]))]
        elif kind == "ranges":
            rs = []
            for _ in range(draw(st.integers(1, 3))):
                a = t_on_grid()
                rs.append([a, a + draw(st.integers(-1, 6)) * interval])
            spec["rs"] = rs
        elif kind == "period":
            off = draw(st.sampled_from([0, 0, 0, 0, 1]))
            spec["d"] = draw(st.integers(1, 7)) * interval + (off if interval > 1 else 0)
            spec["p"] = draw(st.sampled_from([0, 0, 1, 2, 5])) * interval + draw(st.sampled_from([0, 0, 0, 1440, 2880]))  # delays of a day and more too
            spec["imm"] = draw(st.booleans())
        else:
            spec["ds"] = [k * interval for k in draw(st.lists(st.integers(1, 6), min_size=1, max_size=3))]
            spec["p"] = draw(st.sampled_from([0, 0, 1, 3])) * interval + draw(st.sampled_from([0, 0, 0, 1440]))
            spec["imm"] = draw(st.booleans())
        trigs.append(spec)
    return {"interval": interval, "start_min": start_min, "n_min": n_min, "triggers": trigs}


def dt(m, sec=0):
    return (world.BASE_DAY + pd.Timedelta(minutes=m, seconds=sec)).to_pydatetime()


def make_trigger(spec, do):
    from demeter import strategy as S

    kw = spec["kw"]
    k = spec["kind"]
    if k == "at":
        return S.AtTimeTrigger(dt(spec["t"], spec["sec"]), do, **kw)
    if k == "ats":
        return S.AtTimesTrigger([dt(t, spec["sec"]) for t in spec["ts"]], do, **kw)
    if k == "range":
        return S.TimeRangeTrigger(S.TimeRange(dt(spec["r"][0], spec["sec"]), dt(spec["r"][1])), do, **kw)
    if k == "ranges":
        return S.TimeRangesTrigger([S.TimeRange(dt(a), dt(b, spec["sec"])) for a, b in spec["rs"]], do, **kw)
    if k == "period":
        return S.PeriodTrigger(timedelta(minutes=spec["d"]), do, trigger_immediately=spec["imm"], pending=timedelta(minutes=spec["p"]), **kw)
    return S.PeriodsTrigger([timedelta(minutes=d) for d in spec["ds"]], do, trigger_immediately=spec["imm"], pending=timedelta(minutes=spec["p"]), **kw)


def denotation(spec, bars, interval):
    """Set of bar timestamps the specification denotes; None when not defined (off-grid period)."""
    first = spec["add_at"] or 0
    if spec.get("add_via", "before") != "before":
        first += 1  # registered during the trigger phase of bar add_at: whether that very bar still counts is left open
    B = bars[first:]
    k = spec["kind"]
    if k == "at":
        return {b for b in B if b == dt(spec["t"])}
    if k == "ats":
        ts = {dt(t) for t in spec["ts"]}
        return {b for b in B if b in ts}
    if k == "range":
        return {b for b in B if dt(spec["r"][0]) <= b < dt(spec["r"][1])}
    if k == "ranges":
        return {b for b in B if any(dt(a) <= b < dt(e) for a, e in spec["rs"])}
    t0 = B[0]
    out = {t0} if spec["imm"] else set()
    ds = [spec["d"]] if k == "period" else spec["ds"]
    Bs = set(B)
    for d in ds:
        if d % interval != 0:
            return None
        t = t0 + timedelta(minutes=spec["p"] + d)
        while t <= B[-1]:
            if t in Bs:
                out.add(t)
            t += timedelta(minutes=d)
    return out


def body(case, ctx: Ctx):
    from demeter import Actuator, MarketInfo, Strategy
    from demeter.uniswap import UniLpMarket

    interval, start_min, n_min = case["interval"], case["start_min"], case["n_min"]
    pool = _FRAME_CACHE.setdefault("pool", world.uni_pool(6, 18, True))
    df = base_frame(pool).iloc[start_min : start_min + n_min]
    bars = world.bar_grid(start_min, n_min, interval)
    specs = case["triggers"]
    fired = [[] for _ in specs]
    alive_after = []
    objs = [None] * len(specs)

    class Scripted(Strategy):
        def _vf_add(self, i):
            def do(snap, _i=i, **kw):
                fired[_i].append((snap.timestamp, snap.row_id, dict(kw)))

            objs[i] = make_trigger(specs[i], do)
            self.triggers.append(objs[i])

        def initialize(self):
            from demeter import strategy as S

            for i, sp in enumerate(specs):
                if sp["add_at"] is None:
                    self._vf_add(i)
                elif sp.get("add_via", "before") != "before":
                    # a helper trigger whose action registers trigger i during the trigger phase of bar add_at
                    def install(snap, _i=i, _via=sp["add_via"]):
                        if _via == "trigger_rebind":
                            self.triggers = list(self.triggers)
                        self._vf_add(_i)

                    self.triggers.append(S.AtTimeTrigger(bars[sp["add_at"]], install))

        def before_bar(self, snap):
            for i, sp in enumerate(specs):
                if sp["add_at"] is not None and sp["add_at"] == snap.row_id and sp.get("add_via", "before") == "before":
                    self._vf_add(i)

        def after_bar(self, snap):
            alive_after.append((snap.timestamp, {i for i, o in enumerate(objs) if o is not None and any(o is t for t in self.triggers)}))

    a = Actuator()
    m = UniLpMarket(MarketInfo("uni"), pool)
    a.broker.add_market(m)
    a.broker.set_balance(pool.token0, 1000)
    a.broker.set_balance(pool.token1, 1)
    m.data = df
    a.strategy = Scripted()
    a.set_price(m.get_price_from_data())
    a.interval = f"{interval}min"
    kinds = sorted({s["kind"] for s in specs})
    sig_kind = "+".join(kinds)
    ok = ctx.guarded(f"loop.{sig_kind}", case, lambda: (world.quiet_run(a), True)[1])
    labels = [f"interval.{interval}"] + [f"kind.{k}" for k in kinds]
    if ok is None:
        ctx.case(case, False, labels)
        return
    seen_bars = [x[0] for x in alive_after]
    ctx.check(seen_bars == bars, "grid", lambda: f"bars visited {seen_bars[:4]}..x{len(seen_bars)} vs grid {bars[:4]}..x{len(bars)}", case)
    nontrivial = False
    for i, sp in enumerate(specs):
        k = sp["kind"]
        exp = denotation(sp, bars, interval)
        got = [f[0] for f in fired[i]]
        ctx.check(len(got) == len(set(got)), f"{k}.twice_in_bar", lambda: f"trigger {i} fired more than once in a bar: {got[:6]}", case)
        ctx.check(all(f[2] == sp["kw"] for f in fired[i]), f"{k}.kwargs", lambda: f"trigger {i} kwargs {fired[i][:2]} vs {sp['kw']}", case)
        ctx.check(all(f[0] == bars[f[1]] for f in fired[i]), f"{k}.snapshot", lambda: f"trigger {i} snapshot timestamp/row mismatch", case)
        if sp["add_at"] is not None:
            labels.append("added_late")
        if k == "periods" and len(sp["ds"]) > 1:
            ds = sp["ds"]
            span = (len(bars) - (sp["add_at"] or 0)) * interval
            if any(a_ != b_ and (a_ * b_ // _gcd(a_, b_)) + sp["p"] <= span for x, a_ in enumerate(ds) for b_ in ds[x + 1 :]) or len(set(ds)) < len(ds):
                labels.append("periods.coincide")
        if exp is None:
            labels.append("offgrid")
            continue
        may = set(exp)
        if sp.get("add_via", "before") != "before":
            labels.append(f"added_by.{sp['add_via']}")
            own = bars[sp["add_at"]]
            if denotation({**sp, "add_via": "before"}, bars, interval) and own in denotation({**sp, "add_via": "before"}, bars, interval):
                may.add(own)
        missing = sorted(exp - set(got))
        extra = sorted(set(got) - may)
        if missing or extra:
            ctx.fail(f"{k}.denotation." + ("missing" if missing else "extra"), f"trigger {i} {sp}: missing {missing[:4]} extra {extra[:4]} (bars {bars[0]}..{bars[-1]} x{len(bars)})", case)
        # retirement: a trigger that left strategy.triggers after bar j has no denoted bar later than j
        for ts, alive in alive_after:
            if (sp["add_at"] is None or ts >= bars[sp["add_at"]]) and i not in alive and objs[i] is not None:
                later = [b for b in exp if b > ts]
                ctx.check(not later, f"{k}.retired_early", lambda: f"trigger {i} retired after {ts} but denotes {later[:3]}", case)
                break
        if exp and len(exp) < len(bars):
            nontrivial = True
    ctx.case(case, nontrivial, labels)


def _gcd(a, b):
    while b:
        a, b = b, a % b
    return a


def shards(tier, seed):
    n = 400 if tier == "quick" else 8000
    return [{"sub": "loop", "idx": i, "n": n, "seed": derive_seed(seed, PROPERTY, "loop", i)} for i in range(16)]


def run_shard(spec):
    ctx = Ctx(PROPERTY, spec["sub"])
    v = run_given(ctx, st_case(), body, spec["n"], spec["seed"])
    return ctx.result(v)


def replay(rec):
    return replay_body(PROPERTY, body, rec["case"], rec["sub"])
