"""C04 — a rejected operation leaves wallet, positions, order book and action log intact."""
from hypothesis import strategies as st

from vf import frozen, multi
from vf.engine import Ctx, derive_seed, replay_body, run_given
from vf.gen.multi import st_universe

PROPERTY = "C04"
RULE = (
    "a generated universe (any mix of the six market families behind one broker and wallet) frozen on one bar, and a "
    "generated sequence of up to 30 operations of every market with arguments relative to holdings (0, dust, fractions, "
    "exactly all, a hair above, 1.5x, 10x), run-time selectors, small and empty wallets, closed option market (off the "
    "hour), unknown positions / vaults / instruments; before every call a deep snapshot is taken (wallet, every market's "
    "position containers, vault fields and id counter, option cash and holdings, GLP / GM amounts, last_tick, the visible "
    "order book, the action log length); if the call raises - any exception class - the snapshot afterwards must be equal. "
    "For the multi-transaction helpers (add_liquidity_by_value, even_rebalance, remove_all_liquidity) the state after a "
    "raise must equal the state before advanced by exactly the constituent transactions that were recorded. "
    "Non-trivial = a rejected call in a state with a non-empty position container."
)
ASSUMPTIONS = [
    "open_deposit_mint and burn_and_withdraw mirror single controller transactions and are held to full atomicity",
    "memo caches are not compared as raw fields; the Aave views a user would read right after a rejected call (health factor, supply / collateral / debt values and listings) are part of the snapshot",
    "negative amounts are outside the generated domain",
]
MIN_NONTRIVIAL = {"quick": 1500, "thorough": 30000}
REQUIRED_LABELS = ["rejected.uni", "rejected.aave", "rejected.sq", "rejected.opt", "rejected.glp", "rejected.gm", "rejected.broker", "rejected.closed_market", "rejected.helper", "cause.insufficient", "cause.unsafe"]


def body(case, ctx: Ctx):
    u = ctx.guarded("build", case, frozen.build, case)
    if u is None:
        ctx.case(case, False, ["build.failed"])
        return
    labels = set()
    nontrivial = False
    for i, op in enumerate(case["prog"]):
        pre, post, out, acts = frozen.step(u, op)
        if out[0] != "rejected":
            labels.add(f"{out[0]}.{op[2]}")
            continue
        mk = "uni" if op[2] == "squni" else op[2]
        labels.add(f"rejected.{mk}")
        msg = f"{type(out[1]).__name__}: {getattr(out[1], 'message', out[1])}"
        low = msg.lower()
        if "not open" in low:
            labels.add("rejected.closed_market")
        if "insufficient" in low or "not enough" in low or "doesn't exist in assets" in low:
            labels.add("cause.insufficient")
        if "not safe" in low or "health factor" in low or "cannot cover" in low:
            labels.add("cause.unsafe")
        held = any(bool(v) if not isinstance(v, tuple) else any(bool(x) for x in v) for k, v in pre.items() if k not in ("wallet", "_books", "_nact", "_last_tick", "_views"))
        nontrivial = nontrivial or held
        where = f"step {i} {op[2:]} rejected ({msg[:160]})"
        if (op[2], op[3]) in frozen.HELPERS:
            # multi-transaction helper: every state delta must be accounted for by a recorded constituent transaction
            labels.add("rejected.helper")
            if acts:
                labels.add("helper.partial")
            exp = ctx.guarded("helper.replay", case, frozen.replay_uni_actions, u, op[2], pre, acts)
            if exp is not None:
                got = {"wallet": post["wallet"], op[2]: post[op[2]]}
                d = frozen.diff(exp, got)
                ctx.check(d is None, f"helper.{op[3]}.unaccounted", lambda: f"{where} after recording {[type(a).__name__ for a in acts]}: state differs from 'before + recorded transactions' at {d}", case)
                rest_pre = {k: v for k, v in pre.items() if k not in ("wallet", op[2], "_nact")}
                rest_post = {k: v for k, v in post.items() if k not in ("wallet", op[2], "_nact")}
                d2 = frozen.diff(rest_pre, rest_post)
                ctx.check(d2 is None, f"helper.{op[3]}.other_state", lambda: f"{where}: unrelated state changed at {d2}", case)
            continue
        d = frozen.diff(pre, post)
        ctx.check(d is None, f"{mk}.{op[3]}.changed", lambda: f"{where} but state changed at {d}", case)
    ctx.case(case, nontrivial, sorted(labels), key=[case["order"], case["prog"], case["wallet"]])


def st_case():
    return st_universe("frozen", max_bars=2, max_ops=30)


def shards(tier, seed):
    n = 400 if tier == "quick" else 8000
    return [{"sub": "frozen", "idx": i, "n": n, "seed": derive_seed(seed, PROPERTY, "frozen", i)} for i in range(16)]


def run_shard(spec):
    ctx = Ctx(PROPERTY, spec["sub"])
    v = run_given(ctx, st_case(), body, spec["n"], spec["seed"])
    return ctx.result(v)


def replay(rec):
    return replay_body(PROPERTY, body, rec["case"], rec["sub"])
