#!/venv/bin/python
"""Run a check at many VERIF_SEED values on the unchanged tree (quietness sweep; not a registered check).

usage: tools/seedsweep.py C16[,C15,...] [--seeds 2-30] [--tier quick]
Evidence files are not rewritten; replay files of any violation go to sweep/<PROP>/ next to this checkout."""
import argparse, os, subprocess, sys

HERE = os.path.dirname(os.path.dirname(os.path.abspath(__file__)))
ap = argparse.ArgumentParser()
ap.add_argument("props")
ap.add_argument("--seeds", default="2-12")
ap.add_argument("--tier", default="quick")
a = ap.parse_args()
lo, hi = (a.seeds.split("-") + [a.seeds])[:2]
bad = 0
for prop in a.props.split(","):
    rdir = os.path.join(HERE, "sweep", prop)
    for seed in range(int(lo), int(hi) + 1):
        env = dict(os.environ, VERIF_SEED=str(seed), VF_NO_EVIDENCE="1", VF_REPLAY_DIR=rdir)
        p = subprocess.run([os.path.join(HERE, "check"), prop, "--tier", a.tier], env=env, capture_output=True, text=True)
        last = p.stdout.strip().splitlines()[-1:] or [""]
        print(f"{prop} seed={seed} rc={p.returncode} {last[0]}", flush=True)
        if p.returncode != 0:
            bad += 1
            print("\n".join(l[:400] for l in p.stdout.splitlines() if l.startswith(("DETAIL", "VIOLATION", "HARNESS"))), flush=True)
sys.exit(1 if bad else 0)
