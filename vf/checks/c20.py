"""C20 — performance metrics equal their definitions."""
import math
from decimal import Decimal

import numpy as np
import pandas as pd
from hypothesis import strategies as st

from vf.engine import Ctx, derive_seed, replay_body, run_given

PROPERTY = "C20"
RULE = (
    "positive float net-value series of length 2..400 built by shape class (random walk, rising, falling, V, "
    "plateaus, 'largest absolute decline != largest relative decline', dust-sized moves) x scale 1e-6..1e9 x sampling "
    "interval 1 min..1 day x benchmark series x risk-free rate; oracles are pure-Python definitions (O(n^2) drawdown, "
    "fsum-based std / cov, closed-form returns). Non-trivial = series with >= 2 local peaks; distinct by the series."
)
ASSUMPTIONS = [
    "tolerance 1e-9 relative (+1e-12 absolute), widened by the conditioning of x**(365/days): 8*n*eps*exponent",
    "series are scaled by construction so that total return ** (365/days) stays inside float range",
    "strictly positive finite values only (the property's domain)",
]
MIN_NONTRIVIAL = {"quick": 3000, "thorough": 60000}
REQUIRED_LABELS = ["shape.absrel", "shape.rising", "mdd.zero", "mdd.absrel_differs", "perf.with_benchmark", "bench_index.range", "bench_index.shift"]

EPS = 2.220446049250313e-16
SHAPES = ["walk", "rising", "falling", "vshape", "plateau", "absrel", "dust", "walk"]
INTERVALS_MIN = [1, 5, 15, 60, 240, 1440]


# ------------------------------------------------------------------ generators
@st.composite
def st_case(draw):
    shape = draw(st.sampled_from(SHAPES))
    n = draw(st.one_of(st.integers(2, 12), st.integers(2, 60), st.integers(2, 400)))
    us = draw(st.lists(st.floats(-1, 1, allow_nan=False, width=64), min_size=n - 1, max_size=n - 1))
    ub = draw(st.lists(st.floats(-1, 1, allow_nan=False, width=64), min_size=n - 1, max_size=n - 1))
    return {
        "shape": shape,
        "n": n,
        "u": us,
        "ub": ub,
        "sigma": draw(st.sampled_from([1e-6, 1e-4, 1e-3, 1e-2, 0.1, 0.5])),
        "scale_exp": draw(st.integers(-6, 9)),
        "interval_min": draw(st.sampled_from(INTERVALS_MIN)),
        "rf": draw(st.sampled_from([0.0, 0.03, 0.05, -0.01, 0.2])),
        "rescale": draw(st.sampled_from([1e-3, 0.5, 3.0, 7.25, 1e6])),
        "as_decimal": draw(st.booleans()),
        "start_min": draw(st.integers(0, 2 * 1440)),
        # the benchmark is "a list of values" paired bar by bar: its index may be the net-value index, a plain RangeIndex,
        # or time stamps of another convention (bar close instead of bar open)
        "bidx": draw(st.sampled_from(["same", "range", "shift", "offset"])),
    }


def build_series(case, key="u"):
    n, shape, sigma = case["n"], case["shape"] if key == "u" else "walk", case["sigma"]
    u = case[key]
    lr = []
    for i, x in enumerate(u):
        if shape == "walk":
            r = sigma * x
        elif shape == "rising":
            r = sigma * abs(x)
        elif shape == "falling":
            r = -sigma * abs(x)
        elif shape == "vshape":
            r = -sigma * abs(x) if i < len(u) // 2 else sigma * abs(x)
        elif shape == "plateau":
            r = 0.0 if abs(x) < 0.5 else sigma * x
        elif shape == "dust":
            r = 1e-13 * x
        else:  # absrel: early dip that is large relatively, then a jump up and a dip that is large absolutely
            if i == 0:
                r = -0.3 - 0.3 * abs(x)
            elif i == 1:
                r = 3.0 + abs(x)
            elif i == 2:
                r = -0.05 - 0.1 * abs(x)
            else:
                r = 0.01 * sigma * x
        lr.append(r)
    # keep total ** (365/duration) inside float range (construction, not rejection)
    dur_days = n * case["interval_min"] / 1440.0
    expo = 365.0 / dur_days
    tot = abs(math.fsum(lr))
    if tot * expo > 300:
        f = 300 / (tot * expo)
        lr = [r * f for r in lr]
    v0 = 10.0 ** case["scale_exp"] * 1.2345
    vals = [v0]
    acc = 0.0
    for r in lr:
        acc += r
        vals.append(v0 * math.exp(acc))
    return vals


# ------------------------------------------------------------------ pure-python definitions
def ref_mdd(v):
    best = 0.0
    n = len(v)
    for i in range(n):
        vi = v[i]
        for j in range(i, n):
            d = 1 - v[j] / vi
            if d > best:
                best = d
    return best


def ref_std(x):
    n = len(x)
    if n < 2:
        return float("nan")
    m = math.fsum(x) / n
    return math.sqrt(math.fsum((a - m) ** 2 for a in x) / (n - 1))


def ref_cov(x, y):
    n = len(x)
    mx, my = math.fsum(x) / n, math.fsum(y) / n
    return math.fsum((a - mx) * (b - my) for a, b in zip(x, y)) / (n - 1)


def near(a, b, tol):
    if a is None or b is None:
        return False
    a, b = float(a), float(b)
    if math.isnan(a) or math.isnan(b):
        return math.isnan(a) and math.isnan(b)
    if math.isinf(a) or math.isinf(b):
        return a == b
    return abs(a - b) <= tol * max(abs(a), abs(b)) + 1e-12


def local_peaks(v):
    c = 0
    for i in range(1, len(v) - 1):
        if v[i] > v[i - 1] and v[i] >= v[i + 1]:
            c += 1
    return c


# ------------------------------------------------------------------ body
def body(case, ctx: Ctx):
    from demeter.result.metrics import calculator as C
    from demeter.result.metrics._typing import MetricEnum
    from demeter.result.metrics.core import performance_metrics

    v = build_series(case)
    b = build_series(case, "ub")
    n = len(v)
    interval_day = case["interval_min"] / 1440.0
    dur = n * interval_day
    expo = 365.0 / dur
    tol = 1e-9
    tol_pow = 1e-9 + 8 * n * EPS * expo
    s = pd.Series(v)
    bidx = case.get("bidx", "same")
    sb = pd.Series(b, index=range(3, 3 + n)) if bidx in ("shift", "offset") else pd.Series(b)
    info = {k: case[k] for k in case if k not in ("u", "ub")}
    info["values_head"] = v[:8]
    labels = [f"shape.{case['shape']}", f"interval.{case['interval_min']}"]
    def G(sig, fn, *a, **kw):
        """call a metric; the series handed in must come back unchanged (a caller may use them again)"""
        held = [(x, x.copy(deep=True)) for x in list(a) + list(kw.values()) if isinstance(x, pd.Series)]
        r = ctx.guarded(sig, case, fn, *a, **kw)
        for x, c in held:
            ctx.check(x.equals(c), f"inputs.mutated.{sig}", lambda: f"{fn.__name__} changed the series it was given: {list(c[:4])} -> {list(x[:4])}", case)
        return r


    # ---- maximum drawdown
    m_ref = ref_mdd(v)
    m = G("mdd", C.max_draw_down, s)
    if m is not None:
        ctx.check(near(m, m_ref, tol), "mdd.definition." + ("rising" if m_ref == 0 else "falling"), lambda: f"max_draw_down={m!r} definition={m_ref!r} series={v[:12]}", case)
        ctx.check(0 <= float(m) <= 1, "mdd.range", f"max_draw_down={m!r}", case)
        m2 = C.max_draw_down(pd.Series([x * case["rescale"] for x in v]))
        ctx.check(near(m2, m, 1e-9), "mdd.rescale", lambda: f"mdd {m!r} vs rescaled {m2!r}", case)
    if m_ref == 0:
        labels.append("mdd.zero")
    # does the largest absolute decline differ from the largest relative one?
    peak = v[0]
    best_abs, best_abs_rel = 0.0, 0.0
    for x in v:
        peak = max(peak, x)
        if peak - x > best_abs:
            best_abs, best_abs_rel = peak - x, 1 - x / peak
    if m_ref > 0 and best_abs_rel < m_ref * (1 - 1e-6):
        labels.append("mdd.absrel_differs")

    # ---- returns: equivalent input forms
    init, final = v[0], v[-1]
    rr = G("return_rate", C.return_rate, init, final)
    ctx.check(near(rr, final / init - 1, tol), "return.rate", lambda: f"return_rate={rr!r}", case)
    ctx.check(near(C.return_value(init, final), final - init, tol), "return.value", "return_value", case)
    mult = G("return_multiple", C.return_multiple, s)
    rs = G("return_rate_series", C.return_rate_series, s)
    if mult is not None and rs is not None:
        ok = len(mult) == n and len(rs) == n and mult.iloc[0] == 1 and rs.iloc[0] == 0
        ok = ok and all(near(mult.iloc[i], v[i] / v[i - 1], tol) and abs(rs.iloc[i] - (v[i] / v[i - 1] - 1)) <= 1e-9 * abs(v[i] / v[i - 1] - 1) + 4 * EPS for i in range(1, n))
        ctx.check(ok, "return.series", lambda: f"return series mismatch: {list(mult[:5])} {list(rs[:5])}", case)
        tot_a = final / init - 1
        tot_b = float(np.prod(mult.to_numpy())) - 1
        tot_c = float(np.prod(rs.to_numpy() + 1)) - 1
        t_abs = 1e-9 * abs(tot_a) + 8 * n * EPS
        ctx.check(abs(tot_a - tot_b) <= t_abs and abs(tot_a - tot_c) <= t_abs, "return.total_forms", lambda: f"total return: endpoints {tot_a!r} multiples {tot_b!r} rates {tot_c!r}", case)
        apr_ref = (final / init) ** expo - 1
        a1 = G("apr.endpoints", C.annualized_return, dur, init, final)
        a2 = G("apr.net_values", C.annualized_return, dur, net_values=s)
        a3 = G("apr.return_rates", C.annualized_return, dur, return_rates=rs)
        a3b = G("apr.return_rates", C.annualized_return, dur, return_rates=rs)
        ctx.check(a3 is None or a3b is None or (a3 == a3b) or (a3 != a3 and a3b != a3b), "apr.repeatable", lambda: f"second call on the same return series gives {a3b!r}, first gave {a3!r}", case)
        t_apr = lambda x: abs(float(x) - apr_ref) <= tol_pow * (abs(apr_ref) + 1)
        ctx.check(a1 is not None and t_apr(a1), "apr.compound.endpoints", lambda: f"{a1!r} vs {apr_ref!r}", case)
        ctx.check(a2 is not None and t_apr(a2), "apr.compound.net_values", lambda: f"{a2!r} vs {apr_ref!r}", case)
        ctx.check(a3 is not None and t_apr(a3), "apr.compound.return_rates", lambda: f"{a3!r} vs {apr_ref!r}", case)
        s_ref = (final - init) / init / (dur / 365)
        s1 = G("apr.single", C.annualized_return, dur, init, final, interest_type="single")
        s2 = G("apr.single", C.annualized_return, dur, net_values=s, interest_type="single")
        ctx.check(near(s1, s_ref, tol) and near(s2, s_ref, tol), "apr.single", lambda: f"{s1!r},{s2!r} vs {s_ref!r}", case)

    # ---- risk figures
    mults = [v[i] / v[i - 1] for i in range(1, n)]
    bmults = [b[i] / b[i - 1] for i in range(1, n)]
    rates = [x - 1 for x in mults]
    if n >= 3:
        sd = ref_std(rates)
        vol_ref = sd * math.sqrt(365 / interval_day)
        vol = G("volatility", C.volatility, pd.Series(rates), interval_day)
        # std of numbers near 1 / near 0 carries an absolute error of a few eps
        vtol = lambda ref: 1e-9 * abs(ref) + 64 * EPS * math.sqrt(365 / interval_day)
        ctx.check(vol is not None and abs(vol - vol_ref) <= vtol(vol_ref), "risk.volatility", lambda: f"{vol!r} vs {vol_ref!r}", case)
        apr_m = math.prod(mults) ** expo - 1
        sd_m = ref_std(mults) * math.sqrt(365 / interval_day)
        if sd_m > 1e-7 * math.sqrt(365 / interval_day):  # well-conditioned quotient only
            sh_ref = (apr_m - case["rf"]) / sd_m
            sh = G("sharpe", C.sharpe_ratio, interval_day, dur, s, case["rf"])
            rel = tol_pow + 64 * EPS * math.sqrt(365 / interval_day) / sd_m
            ctx.check(sh is not None and abs(sh - sh_ref) <= rel * (abs(sh_ref) + abs(case["rf"] / sd_m) + 1e-12), "risk.sharpe", lambda: f"{sh!r} vs {sh_ref!r}", case)
            labels.append("risk.sharpe")
        var_b = ref_cov(bmults, bmults)
        if var_b > 1e-14 and ref_cov(mults, mults) > 1e-14:
            beta_ref = ref_cov(mults, bmults) / var_b
            apr_b = math.prod(bmults) ** expo - 1
            alpha_ref = apr_m - beta_ref * apr_b
            ab = G("alpha_beta", C.alpha_beta, s, sb, dur)
            if ab is not None:
                al, be = ab
                btol = 1e-9 * abs(beta_ref) + 64 * EPS / var_b
                ctx.check(abs(be - beta_ref) <= btol, "risk.beta", lambda: f"{be!r} vs {beta_ref!r}", case)
                atol = tol_pow * (abs(apr_m) + abs(beta_ref * apr_b) + 1) + btol * abs(apr_b)
                ctx.check(abs(al - alpha_ref) <= atol, "risk.alpha", lambda: f"{al!r} vs {alpha_ref!r}", case)
                labels.append("risk.alpha_beta")
                ab_ref = (alpha_ref, beta_ref, atol, btol)

    # ---- performance_metrics equals the individual functions
    ab_ref = locals().get("ab_ref")
    idx = pd.date_range(pd.Timestamp("2024-01-01") + pd.Timedelta(minutes=case["start_min"]), periods=n, freq=f"{case['interval_min']}min")
    ser = pd.Series([Decimal(repr(x)) for x in v] if case["as_decimal"] else v, index=idx)
    with_b = case["scale_exp"] % 2 == 0
    if bidx == "range":
        bser = pd.Series(b)
    elif bidx == "shift":
        bser = pd.Series(b, index=idx + (idx[1] - idx[0]))
    elif bidx == "offset":
        bser = pd.Series(b, index=idx + pd.Timedelta(seconds=30))
    else:
        bser = pd.Series(b, index=idx)
    if not with_b:
        bser = None
    else:
        labels.append(f"bench_index.{bidx}")
    pm = G("performance_metrics", performance_metrics, ser, case["rf"], bser)
    if pm is not None:
        labels.append("perf.with_benchmark" if with_b else "perf.no_benchmark")
        exp = {
            MetricEnum.start_val: init,
            MetricEnum.end_val: final,
            MetricEnum.return_value: final - init,
            MetricEnum.return_rate: final / init - 1,
            MetricEnum.max_draw_down: m_ref,
        }
        for k, ref in exp.items():
            ctx.check(near(pm[k], ref, tol), f"perf.{k.name}", lambda: f"performance_metrics[{k.name}]={pm[k]!r} vs {ref!r}", case)
        ctx.check(abs(float(pm[MetricEnum.annualized_return]) - ((final / init) ** expo - 1)) <= tol_pow * (abs((final / init) ** expo - 1) + 1), "perf.annualized_return", lambda: f"{pm[MetricEnum.annualized_return]!r}", case)
        ctx.check(pm[MetricEnum.start_period] == idx[0] and pm[MetricEnum.end_period] == idx[-1] and pm[MetricEnum.duration] == (idx[-1] - idx[0]) + (idx[1] - idx[0]), "perf.period", "start/end/duration", case)
        if n >= 3:
            ctx.check(abs(pm[MetricEnum.volatility] - vol_ref) <= vtol(vol_ref), "perf.volatility", lambda: f"{pm[MetricEnum.volatility]!r} vs {vol_ref!r}", case)
        if with_b and ab_ref is not None:
            ctx.check(abs(pm[MetricEnum.beta] - ab_ref[1]) <= ab_ref[3], "perf.beta", lambda: f"performance_metrics beta {pm[MetricEnum.beta]!r} vs {ab_ref[1]!r} (benchmark index: {bidx})", case)
            ctx.check(abs(pm[MetricEnum.alpha] - ab_ref[0]) <= ab_ref[2], "perf.alpha", lambda: f"performance_metrics alpha {pm[MetricEnum.alpha]!r} vs {ab_ref[0]!r} (benchmark index: {bidx})", case)
        if with_b:
            ctx.check(near(pm[MetricEnum.benchmark_rate], b[-1] / b[0] - 1, tol), "perf.benchmark_rate", lambda: f"{pm[MetricEnum.benchmark_rate]!r}", case)
            bref = (b[-1] / b[0]) ** expo - 1
            ctx.check(abs(pm[MetricEnum.annualized_benchmark_rate] - bref) <= tol_pow * (abs(bref) + 1), "perf.benchmark_apr", lambda: f"{pm[MetricEnum.annualized_benchmark_rate]!r} vs {bref!r}", case)

    peaks = local_peaks(v)
    ctx.case(info, peaks >= 2, labels=labels, key=v)


def shards(tier, seed):
    n = 1200 if tier == "quick" else 25000
    return [{"sub": "metrics", "idx": i, "n": n, "seed": derive_seed(seed, PROPERTY, "metrics", i)} for i in range(16)]


def run_shard(spec):
    ctx = Ctx(PROPERTY, spec["sub"])
    v = run_given(ctx, st_case(), body, spec["n"], spec["seed"])
    return ctx.result(v)


def replay(rec):
    return replay_body(PROPERTY, body, rec["case"], rec["sub"])
