"""Hypothesis strategies for Aave cases (see vf/aave.py for the case format)."""
from decimal import Decimal

from hypothesis import strategies as st

D = Decimal
NAMES = ["WETH", "USDT", "DAI", "WBTC", "LINK"]
BASE_PRICE = {"WETH": "2000", "USDT": "1", "DAI": "1.0003", "WBTC": "41000", "LINK": "14.7"}
DECS = {"WETH": 18, "USDT": 6, "DAI": 18, "WBTC": 8, "LINK": 18}
FR = ["0", "0.000000001", "0.1", "0.5", "0.9", "0.999995", "1", "1.000001", "1.00005", "10"]


def dstr(x: Decimal) -> str:
    return format(x, "f")


@st.composite
def st_token(draw, name, profile):
    coll = draw(st.sampled_from([True, True, True, False]))
    if coll:
        if profile == "liq" and draw(st.booleans()):
            lt = draw(st.integers(8500, 9500))  # high thresholds: repeated steps needed
            ltv = draw(st.integers(5000, lt))
            bonus = draw(st.integers(100, max(100, min(1500, (10**8 // lt) - 10000))))
        else:
            lt = draw(st.integers(5000, 9000))
            ltv = draw(st.integers(3000, lt))
            bonus = draw(st.sampled_from([400, 500, 750, 1000]))
            bonus = min(bonus, (10**8 // lt) - 10000)
    else:
        ltv, lt, bonus = 0, draw(st.sampled_from([0, 7700])), 500
    return {"name": name, "dec": DECS[name], "ltv": ltv, "lt": lt, "bonus": bonus, "coll": coll, "borrow": draw(st.sampled_from([True, True, True, False]))}


@st.composite
def st_growth(draw):
    k = draw(st.sampled_from(["flat", "tiny", "small", "jump"]))
    if k == "flat":
        return D(1)
    if k == "tiny":
        return D(1) + D(draw(st.integers(1, 10**6))) / D(10**13)
    if k == "small":
        return D(1) + D(draw(st.integers(1, 10**6))) / D(10**9)
    return D(1) + D(draw(st.integers(1, 80))) / D(1000)


@st.composite
def st_amount(draw, kind, profile):
    if kind == "supply":
        return draw(st.one_of(st.tuples(st.just("wallet"), st.sampled_from(FR)), st.tuples(st.just("abs"), st.sampled_from(["0", "0.000001", "1", "3.7", "1000", "1000000000000"]))))
    if kind == "withdraw":
        return draw(st.one_of(st.none(), st.tuples(st.just("supply"), st.sampled_from(FR)), st.tuples(st.just("supplyq"), st.sampled_from(["up", "down"])), st.tuples(st.just("maxwithdraw"), st.sampled_from(["0.5", "0.999", "0.999999999999", "1", "1", "1.000000000001", "1.001", "1.01", "2"])), st.tuples(st.just("abs"), st.sampled_from(["0", "0.01", "1"]))))
    if kind == "borrow":
        return draw(st.one_of(st.none(), st.tuples(st.just("maxborrow"), st.sampled_from(["0.1", "0.5", "0.999", "1", "1", "1.0101", "1.01010101", "1.01010102", "1.0202", "2"])), st.tuples(st.just("abs"), st.sampled_from(["0", "0.001", "1", "100", "5000", "1000000000"]))))
    if kind == "repay":
        return draw(st.one_of(st.none(), st.tuples(st.just("debt"), st.sampled_from(FR)), st.tuples(st.just("debtq"), st.sampled_from(["up", "up", "down"])), st.tuples(st.just("wallet"), st.sampled_from(["0.5", "1"])), st.tuples(st.just("abs"), st.sampled_from(["0", "0.5", "100"]))))
    raise ValueError(kind)


OP_WEIGHTS = {
    "accrual": ["supply"] * 4 + ["withdraw"] * 3 + ["borrow"] * 3 + ["repay"] * 4 + ["read"],
    "limits": ["supply"] * 3 + ["withdraw"] * 4 + ["borrow"] * 4 + ["repay"] * 2 + ["flag"] * 2 + ["read"],
    "liq": ["supply"] * 4 + ["borrow"] * 5 + ["withdraw", "repay", "flag", "read"],
    "views": ["supply"] * 3 + ["withdraw"] * 2 + ["borrow"] * 3 + ["repay"] * 2 + ["flag"] * 2 + ["read"] * 8,
    "chaos": ["supply"] * 3 + ["withdraw"] * 3 + ["borrow"] * 3 + ["repay"] * 3 + ["flag"] * 2 + ["read"] * 2,
}


def st_tok(names, selector):
    """an explicit token name, or (mostly) a run-time selector so that operations meet the state they need"""
    return st.one_of(st.sampled_from(names), st.builds(lambda k: f"@{selector}:{k}", st.integers(0, 3)), st.builds(lambda k: f"@{selector}:{k}", st.integers(0, 3)))


@st.composite
def st_op(draw, names, profile):
    from vf.aave import VIEWS

    kind = draw(st.sampled_from(OP_WEIGHTS[profile]))
    if kind == "supply":
        a = draw(st_amount("supply", profile))
        return ["supply", draw(st_tok(names, "funded")), list(a), draw(st.sampled_from([True, True, True, False]))]
    if kind == "withdraw":
        a = draw(st_amount("withdraw", profile))
        return ["withdraw", draw(st_tok(names, "supplied")), list(a) if a else None]
    if kind == "borrow":
        a = draw(st_amount("borrow", profile))
        return ["borrow", draw(st.sampled_from(names)), list(a) if a else None]
    if kind == "repay":
        a = draw(st_amount("repay", profile))
        wc = draw(st.sampled_from([False, False, True]))
        if wc and draw(st.booleans()):
            a = ("collsupply", draw(st.sampled_from(["0.3", "0.7", "0.9", "0.99", "1", "1.000001", "1.5"])))
        return ["repay", draw(st_tok(names, "debt")), list(a) if a else None, wc, draw(st.one_of(st.none(), st_tok(names, "collateral"))) if wc else None]
    if kind == "flag":
        return ["flag", draw(st_tok(names, "supplied")), draw(st.booleans())]
    return ["read", draw(st.sampled_from(VIEWS))]


@st.composite
def st_case(draw, profile="chaos", max_bars=8, max_ops=5):
    n = draw(st.integers(2, 4))
    names = draw(st.permutations(NAMES))[:n]
    names = list(names)
    tokens = [draw(st_token(nm, profile)) for nm in names]
    if not any(t["coll"] for t in tokens):
        tokens[0]["coll"], tokens[0]["ltv"], tokens[0]["lt"], tokens[0]["bonus"] = True, 7500, 8000, 500
    if not any(t["borrow"] for t in tokens):
        tokens[-1]["borrow"] = True
    wallet = {}
    for nm in names:
        units = draw(st.sampled_from(["0", "1", "1", "10", "10", "1000", "123456.789"]))
        wallet[nm] = dstr(D(units) * (D(10000) / D(BASE_PRICE[nm])).quantize(D("0.0001")) if units not in ("0",) else D(0))
    equal_idx = draw(st.booleans()) if profile != "liq" else draw(st.integers(0, 5)) == 0
    li = {nm: D(1) + D(draw(st.integers(0, 6 * 10**8))) / D(10**9) for nm in names}
    bi = {nm: li[nm] if equal_idx else D(1) + D(draw(st.integers(0, 8 * 10**8))) / D(10**9) for nm in names}
    if equal_idx:
        v = li[names[0]]
        li = {nm: v for nm in names}
        bi = {nm: v for nm in names}
    px = {nm: D(BASE_PRICE[nm]) * (D(draw(st.integers(500, 2000))) / D(1000)) for nm in names}
    nb = draw(st.integers(1, max_bars))
    bars = []
    crash_at = draw(st.integers(1, nb)) if profile in ("liq",) or draw(st.integers(0, 3)) == 0 else None
    for i in range(nb):
        # a quiet bar: the pool rows repeat the previous bar's exactly and at most one token price moves
        quiet = i > 0 and draw(st.integers(0, 4)) == 0
        if quiet:
            nm = draw(st.sampled_from(names))
            px[nm] = px[nm] * (D(draw(st.sampled_from([1000, 1000, 970, 1030, 1250, 800]))) / D(1000))
            bars.append({"rows": {k: dict(v) for k, v in bars[-1]["rows"].items()}, "prices": {k: dstr(px[k]) for k in names}, "ops": [draw(st_op(names, profile)) for _ in range(draw(st.integers(0, max_ops)))], "quiet": True})
            continue
        if i > 0:
            for nm in names:
                if not equal_idx or nm == names[0]:
                    g1, g2 = draw(st_growth()), draw(st_growth())
                li[nm] = (li[nm] * g1).quantize(D("1e-27"))
                bi[nm] = (bi[nm] * (g1 if equal_idx else g2)).quantize(D("1e-27"))
                move = draw(st.sampled_from(["same", "same", "drift", "drift", "jump"]))
                if move == "drift":
                    px[nm] = px[nm] * (D(draw(st.integers(990, 1010))) / D(1000))
                elif move == "jump":
                    px[nm] = px[nm] * (D(draw(st.integers(700, 1300))) / D(1000))
            if crash_at is not None and i >= crash_at:
                # adverse move: collateral-like tokens fall / debt-like tokens rise, to drive the health factor down
                nm = draw(st.sampled_from(names))
                px[nm] = px[nm] * (D(draw(st.sampled_from([500, 700, 850, 930, 930, 970, 970, 990, 990, 1030, 1100, 1300, 1800]))) / D(1000))
                if profile == "liq":
                    nm = draw(st.sampled_from(names))
                    px[nm] = px[nm] * (D(draw(st.sampled_from([600, 800, 900, 950, 980, 995, 1010, 1250]))) / D(1000))
        ops = [draw(st_op(names, profile)) for _ in range(draw(st.integers(0, max_ops)))]
        if i == 0 and (profile == "liq" or draw(st.integers(0, 4)) > 0):
            pro = []
            for k in range(draw(st.integers(1, 3))):
                pro.append(["supply", f"@funded:{k}", ["wallet", draw(st.sampled_from(["0.1", "0.5", "0.9"]))], draw(st.sampled_from([True, True, True, False]))])
            for k in range(draw(st.integers(0 if profile != "liq" else 1, 2 if profile != "liq" else 3))):
                pro.append(["borrow", draw(st.sampled_from([t["name"] for t in tokens if t["borrow"]])), ["maxborrow", draw(st.sampled_from(["0.2", "0.5", "0.9", "1"] if profile != "liq" else ["0.5", "0.9", "1", "1"]))]])
            ops = pro + ops
        bars.append(
            {
                "rows": {nm: {"li": dstr(li[nm]), "bi": dstr(bi[nm]), "lr": draw(st.sampled_from(["0", "0.021", "0.35"])), "br": draw(st.sampled_from(["0", "0.043", "0.6"]))} for nm in names},
                "prices": {nm: dstr(px[nm]) for nm in names},
                "ops": ops,
            }
        )
    # a broker may be configured to let the wallet go negative (Broker(allow_negative_balance=True)): debits are then exact
    allow_negative = profile == "accrual" and draw(st.integers(0, 3)) == 0
    # the market may be told about a subset of the tokens only (AaveV3Market(tokens=[weth]) and a DAI debt, as the unit tests do)
    listed = names if draw(st.integers(0, 2)) else sorted(draw(st.sets(st.sampled_from(names), min_size=1, max_size=n - 1)))
    return {"tokens": tokens, "wallet": wallet, "bars": bars, "allow_negative": allow_negative, "listed": list(listed)}
