"""Builders for real demeter objects from generated plain data."""
from __future__ import annotations

from decimal import Decimal

import pandas as pd

D = Decimal


def tokens(d0: int, d1: int):
    from demeter import TokenInfo

    return TokenInfo(name=f"TA{d0}", decimal=d0), TokenInfo(name=f"TB{d1}", decimal=d1)


def uni_pool(d0: int, d1: int, token0_is_quote: bool, fee="0.05"):
    from demeter.uniswap import UniV3Pool

    t0, t1 = tokens(d0, d1)
    return UniV3Pool(t0, t1, float(fee), t0 if token0_is_quote else t1)


def uni_static(d0, d1, token0_is_quote, fee="0.05", tick=0, price=None, pool_liq=10**18, in0=0, in1=0, bal0=D(0), bal1=D(0), name="uni"):
    """A broker with one UniLpMarket frozen at a status row (the way the unit tests build it)."""
    from demeter import Broker, MarketInfo
    from demeter.uniswap import UniLpMarket, UniswapMarketStatus

    pool = uni_pool(d0, d1, token0_is_quote, fee)
    broker = Broker()
    market = UniLpMarket(MarketInfo(name), pool)
    broker.add_market(market)
    if price is None:
        price = market.tick_to_price(tick)
    market.set_market_status(
        UniswapMarketStatus(
            timestamp=None,
            data=pd.Series(
                data=[in0, in1, pool_liq, tick, price],
                index=["inAmount0", "inAmount1", "currentLiquidity", "closeTick", "price"],
            ),
        ),
        price=None,
    )
    broker.set_balance(pool.token0, D(bal0))
    broker.set_balance(pool.token1, D(bal1))
    return broker, market


# ---------------------------------------------------------------------------------------------- frames
BASE_DAY = pd.Timestamp("2024-03-05 00:00:00")


def minute_index(start_min: int, n: int) -> pd.DatetimeIndex:
    return pd.date_range(BASE_DAY + pd.Timedelta(minutes=start_min), periods=n, freq="1min")


def uni_frame(pool, start_min: int, ticks, liqs=None, in0=None, in1=None, open_tick=None):
    """Loader-shaped uniswap frame: int64 tick columns, Decimal amount columns, statistic columns added by the
    public UniLpMarket.add_statistic_column (so `price` is the previous close)."""
    import numpy as np
    from demeter.uniswap.helper import _add_statistic_column

    n = len(ticks)
    liqs = liqs if liqs is not None else [10**18] * n
    in0 = in0 if in0 is not None else [0] * n
    in1 = in1 if in1 is not None else [0] * n
    opens = [open_tick if open_tick is not None else ticks[0]] + list(ticks[:-1])
    df = pd.DataFrame(
        {
            "netAmount0": pd.Series([D(x) for x in in0], dtype=object),
            "netAmount1": pd.Series([D(x) for x in in1], dtype=object),
            "closeTick": np.array(ticks, dtype="int64"),
            "openTick": np.array(opens, dtype="int64"),
            "lowestTick": np.array([min(a, b) for a, b in zip(opens, ticks)], dtype="int64"),
            "highestTick": np.array([max(a, b) for a, b in zip(opens, ticks)], dtype="int64"),
            "inAmount0": pd.Series([D(x) for x in in0], dtype=object),
            "inAmount1": pd.Series([D(x) for x in in1], dtype=object),
            "currentLiquidity": pd.Series([D(x) for x in liqs], dtype=object),
        }
    )
    df.index = minute_index(start_min, n)
    _add_statistic_column(df, pool)
    return df


def bar_grid(start_min: int, n_minutes: int, interval_min: int):
    """Resampled bar labels computed with integer arithmetic (bins anchored at midnight of the first day)."""
    first_day = (start_min // 1440) * 1440
    lo = first_day + ((start_min - first_day) // interval_min) * interval_min
    last = start_min + n_minutes - 1
    hi = first_day + ((last - first_day) // interval_min) * interval_min
    return [(BASE_DAY + pd.Timedelta(minutes=m)).to_pydatetime() for m in range(lo, hi + 1, interval_min)]


def quiet_run(actuator):
    """Actuator.run without console output."""
    import contextlib
    import io

    with contextlib.redirect_stdout(io.StringIO()), contextlib.redirect_stderr(io.StringIO()):
        actuator.run(False)
