"""C17 — GMX mint / redeem: fees bounded and rule-based, amounts follow value per share, round trips never profit."""
from decimal import Decimal
from fractions import Fraction

from hypothesis import strategies as st

from vf import gmx
from vf.engine import Ctx, derive_seed, replay_body, run_given

PROPERTY = "C17"
RULE = (
    "v1: generated pool rows shaped like the shipped avalanche frames (GLP supply / USDG amounts in 1e18 units, prices "
    "in 1e30 units, integer weights, aum, float reward rate; 2-7 tokens with 6, 8 and 18 decimals; USDG amounts from 0 "
    "through just below / exactly / just above target to 3x target) x buy / sell sequences with amounts over 12 orders "
    "of magnitude and sized relative to the distance from target, reward accrual bars; checked against an integer "
    "re-implementation of Vault.getFeeBasisPoints, buyUSDG / sellUSDG and GlpManager add / remove liquidity. v2: "
    "generated pool states (balanced / imbalanced either way, virtual inventories, pool value, supply, impact pool "
    "0..large) x deposits of either or both tokens sized relative to the imbalance x withdrawals; checked against a "
    "float re-derivation. Non-trivial = a v1 fee in its rebate or tax branch, or a v2 deposit with non-zero impact."
)
ASSUMPTIONS = [
    "the market is configured with every token of the row (total weight = sum over configured tokens)",
    "v2 amounts are floats: 1e-9 relative tolerance; v1 minted / redeemed amounts within 2 units of the last place of the integer model",
    "a v2 deposit whose positive price impact (paid from the impact pool) exceeds the fees makes the round trip profitable by design of the protocol model: recorded as a known finding, bounded by the applied impact",
]
MIN_NONTRIVIAL = {"quick": 8000, "thorough": 150000}
REQUIRED_LABELS = ["v1.branch.rebate", "v1.branch.tax", "v1.branch.flat", "v1.dec.6", "v1.dec.8", "v1.dec.18", "v1.roundtrip", "v1.oversell.rejected", "v1.reward", "v2.impact.positive", "v2.impact.negative", "v2.impact.capped", "v2.crossover", "v2.roundtrip", "v2.overwithdraw.rejected", "v2.virtual_used", "v1.newrow", "v2.fees.configured", "v1.register.twice"]

BASE_PRICE = {"btc.b": 66066, "weth": 2629, "wbtc": 66066, "wavax": 29, "mim": 1, "usdc.e": 1, "usdc": 1}
WEIGHTS = {"btc.b": 20000, "weth": 20000, "wbtc": 3000, "wavax": 10000, "mim": 1, "usdc.e": 1000, "usdc": 46000}


# ------------------------------------------------------------------------------------------------ v1
@st.composite
def st_v1(draw):
    names = ["weth", "wavax"] + [n for n in ["btc.b", "wbtc", "mim", "usdc.e", "usdc"] if draw(st.booleans())]
    usdg_total = draw(st.integers(10**21, 10**26))
    tw = sum(WEIGHTS[n] for n in names)
    tokens = []
    for n in names:
        target = WEIGHTS[n] * usdg_total // tw
        f = draw(st.sampled_from(["0", "0.3", "0.9", "0.999", "1", "1.001", "1.1", "3"]))
        usdg = int(Fraction(f) * target) + (draw(st.integers(0, 10**6)) if f != "0" else 0)
        price = int(Fraction(BASE_PRICE[n]) * draw(st.integers(500000, 2000000)) / 10**6 * 10**30)
        tokens.append({"name": n, "price": str(price), "usdg": str(usdg), "weight": WEIGHTS[n]})
    glp = draw(st.integers(10**22, 10**27))
    gp = Fraction(draw(st.integers(500000, 2000000)), 10**6)
    aum = int(glp * gp * 10**12)
    ops = []
    for _ in range(draw(st.integers(1, 8))):
        k = draw(st.sampled_from(["buy", "buy", "buy", "sell", "sell", "bar", "roundtrip", "newrow"]))
        n = draw(st.sampled_from(names))
        t = next(x for x in tokens if x["name"] == n)
        target = WEIGHTS[n] * usdg_total // tw
        gap_usd = Fraction(abs(int(t["usdg"]) - target), 10**18)
        usd = draw(st.sampled_from([Fraction(1, 1000), Fraction(1), Fraction(1000), Fraction(10**5), Fraction(10**7), gap_usd / 2, gap_usd, gap_usd * 3 / 2, gap_usd * 3, Fraction(usdg_total, 10**18) / 2]))
        usd = max(usd, Fraction(1, 10**6))
        amt = usd / (Fraction(int(t["price"]), 10**30))
        amt_s = format(Decimal(amt.numerator) / Decimal(amt.denominator), ".18f")
        if k in ("buy", "roundtrip"):
            ops.append([k, n, amt_s])
        elif k == "sell":
            ops.append(["sell", n, draw(st.sampled_from([["held", "0.5"], ["held", "1"], ["held", "1.000001"], ["held", "10"], ["all"], ["abs", "1"], ["abs", "0.000001"]]))])
        elif k == "newrow":
            # the next bar's row: token weights (hence every target amount), a price and a USDG amount have moved
            ops.append(["newrow", n, draw(st.sampled_from([2, 3, 7])), draw(st.sampled_from(["0.9", "1.1"]))])
        else:
            ops.append(["bar"])
    wallet = {n: draw(st.sampled_from(["0", "1", "1000", "1000000000000"])) for n in names}
    return {"register": draw(st.sampled_from(["once", "once", "later", "twice"])), "v": 1, "tokens": tokens, "usdg": str(usdg_total), "glp": str(glp), "aum": str(aum), "interval": draw(st.sampled_from([0.0, 789480314626619.0 / 10**18, 1.5e-5])), "ops": ops, "wallet": wallet}


def body_v1(case, ctx: Ctx):
    import copy

    broker, m, toks, actions, row = gmx.v1_market(case, case["wallet"])
    cur = copy.deepcopy(case)  # the row the market currently stands on (a 'newrow' op moves it)
    labels = {f"v1.register.{case.get('register', 'once')}"}
    nontrivial = False
    supply = int(Decimal(case["glp"]))

    def bps_checks(n, usdg_delta, increase):
        nonlocal nontrivial
        got = ctx.guarded("v1.fee", case, m.get_fee_basis_points, toks[n], Decimal(usdg_delta), increase)
        if got is None:
            return None
        got = Fraction(Decimal(got))
        rule = gmx.v1_fee_bps(cur, n, usdg_delta, increase)
        br = gmx.v1_branch(cur, n, usdg_delta, increase)
        labels.add(f"v1.branch.{br}")
        if br != "flat":
            nontrivial = True
        ctx.check(0 <= got <= 85, "v1.fee.bounds", lambda: f"fee {float(got)} bp for {n} delta {usdg_delta} increase={increase} outside [0, 25 + 60]", case)
        ctx.check(abs(got - rule) <= 1 + Fraction(1, 10**9), "v1.fee.rule", lambda: f"fee {float(got)} bp for {n} delta {usdg_delta} increase={increase}; Vault rule gives {rule} bp (branch {br})", case)
        return got

    def do_buy(n, amt: Decimal):
        held0, wal0 = m.glp_amount, broker.assets[toks[n]].balance
        usdg0, _ = gmx.v1_buy(cur, n, Fraction(amt), Fraction(0))
        bps = bps_checks(n, usdg0, True)
        if bps is None:
            return None
        try:
            ret = m.buy_glp(toks[n], amt)
            ok = True
        except Exception:  # noqa: a rejected operation is an outcome
            ok, ret = False, None
        labels.add(f"v1.dec.{gmx.V1_TOKENS[n]}")
        if not ok:
            labels.add("v1.buy.rejected")
            return None
        _, glp_wei = gmx.v1_buy(cur, n, Fraction(amt), bps)
        got_wei = Fraction(Decimal(ret)) * 10**18
        ctx.check(abs(got_wei - glp_wei) <= 2 + Fraction(glp_wei, 10**30), "v1.buy.minted", lambda: f"buy_glp({n}, {amt}) minted {ret} GLP; price x amount / value per share with round-downs gives {Decimal(glp_wei) / 10**18} (fee {float(bps)} bp, token decimals {gmx.V1_TOKENS[n]})", case)
        ctx.check(abs(m.glp_amount - held0 - ret) <= Decimal("1e-32") * max(held0, ret, Decimal(1)), "v1.buy.holding", lambda: f"holding {held0} -> {m.glp_amount}, returned {ret}", case)
        w1 = broker.assets[toks[n]].balance
        ctx.check(abs(wal0 - w1 - amt) <= Decimal("1e-32") * max(wal0, Decimal(1)) or (w1 == 0 and abs((wal0 - amt) / wal0) < Decimal("0.00001")), "v1.buy.paid", lambda: f"wallet {wal0} -> {w1} for a purchase with {amt}", case)
        labels.add("v1.buy.ok")
        return ret

    def do_sell(n, glp: Decimal, label_over=True):
        held0, wal0 = m.glp_amount, broker.assets[toks[n]].balance if toks[n] in broker.assets else Decimal(0)
        req = glp if glp else held0
        try:
            ret = m.sell_glp(toks[n], glp)
            ok = True
        except Exception:  # noqa
            ok, ret = False, None
        if req > held0:
            ctx.check(not ok, "v1.oversell", lambda: f"sell_glp({n}, {glp}) accepted with only {held0} GLP held: holding now {m.glp_amount}, paid {ret}", case)
            labels.add("v1.oversell.rejected")
            if not ok:
                ctx.check(m.glp_amount == held0, "v1.oversell.state", lambda: f"rejected sale changed the holding {held0} -> {m.glp_amount}", case)
            return None
        if not ok or req == 0:
            return None
        usdg = gmx.v1_sell_usdg(cur, Fraction(req))
        bps = bps_checks(n, usdg, False)
        if bps is None:
            return None
        exp = gmx.v1_sell_out(cur, n, usdg, bps)
        got = Fraction(Decimal(ret))
        ctx.check(abs(got - exp) <= Fraction(2, 10**18) + exp / 10**28, "v1.sell.redeemed", lambda: f"sell_glp({n}, {req}) paid {ret}; value per share / price with round-downs gives {float(exp)!r} (fee {float(bps)} bp, token decimals {gmx.V1_TOKENS[n]})", case)
        ctx.check(abs(held0 - m.glp_amount - req) <= Decimal("1e-32") * max(held0, Decimal(1)), "v1.sell.holding", lambda: f"holding {held0} -> {m.glp_amount} for a sale of {req}", case)
        ctx.check(abs(broker.assets[toks[n]].balance - wal0 - ret) <= Decimal("1e-32") * max(wal0, ret, Decimal(1)), "v1.sell.received", lambda: f"wallet {wal0} -> {broker.assets[toks[n]].balance}, returned {ret}", case)
        ctx.check(m.glp_amount >= 0, "v1.negative_holding", lambda: f"holding {m.glp_amount}", case)
        labels.add("v1.sell.ok")
        return ret

    for op in case["ops"]:
        if op[0] == "buy":
            do_buy(op[1], Decimal(op[2]))
        elif op[0] == "sell":
            spec = op[2]
            held = m.glp_amount
            g = Decimal(0) if spec[0] == "all" else (Decimal(spec[1]) if spec[0] == "abs" else held * Decimal(spec[1]))
            do_sell(op[1], g)
        elif op[0] == "roundtrip":
            n, amt = op[1], Decimal(op[2])
            got = do_buy(n, amt)
            if got:
                back = do_sell(n, got)
                if back is not None:
                    labels.add("v1.roundtrip")
                    ctx.check(back <= amt, "v1.roundtrip.profit", lambda: f"buy_glp({n}, {amt}) then sell_glp of the {got} GLP returned {back} > paid", case)
        elif op[0] == "newrow":
            from demeter import MarketStatus
            import pandas as pd

            t = next(x for x in cur["tokens"] if x["name"] == op[1])
            t["weight"] = int(t["weight"]) * op[2]
            t["usdg"] = str(int(Fraction(op[3]) * int(t["usdg"])))
            cur["usdg"] = str(sum(int(x["usdg"]) for x in cur["tokens"]))
            r = gmx.v1_row(cur)
            price = pd.Series({"WETH": r["weth_price"] / gmx.P30, "WAVAX": r["wavax_price"] / gmx.P30})
            ctx.guarded("v1.newrow", case, m.set_market_status, MarketStatus(pd.Timestamp("2024-10-15") + pd.Timedelta(minutes=len(labels) + 1), r), price)
            labels.add("v1.newrow")
        else:
            r0 = m.reward
            ok = ctx.guarded("v1.update", case, lambda: (m.update(), True)[1])
            if ok:
                exp = Fraction(Decimal(case["interval"])) * 60 * Fraction(m.glp_amount) / supply
                d = Fraction(m.reward - r0)
                ctx.check(abs(d - exp) <= abs(exp) / 10**25 + Fraction(1, 10**40), "v1.reward", lambda: f"reward grew by {m.reward - r0}; rate x 60 x held / supply = {float(exp)!r}", case)
                labels.add("v1.reward")
    ctx.case(case, nontrivial, sorted(labels))


# ------------------------------------------------------------------------------------------------ v2
@st.composite
def st_v2(draw):
    pL = draw(st.integers(150000, 450000)) / 100
    pS = draw(st.sampled_from([1.0, 0.9998, 1.0003]))
    longAmount = float(draw(st.integers(10**3, 10**5)))
    ratio = draw(st.sampled_from([0.2, 0.9, 0.999, 1.0, 1.001, 1.1, 5.0]))
    shortAmount = longAmount * pL / pS * ratio
    if draw(st.booleans()):
        vL, vS = None, None
    else:
        vr = draw(st.sampled_from([0.3, 0.95, 1.0, 1.05, 3.0]))
        vL = longAmount * draw(st.sampled_from([1.0, 2.5]))
        vS = vL * pL / pS * vr
    pool = (longAmount * pL + shortAmount * pS) * draw(st.sampled_from([0.9, 1.0, 1.07]))
    supply = pool / draw(st.sampled_from([0.8, 1.0, 1.37]))
    ipool = draw(st.sampled_from([0.0, 0.0, 0.001, 1.0, 100.0, 1e6]))
    gap = abs(longAmount * pL - shortAmount * pS)
    ops = []
    for _ in range(draw(st.integers(1, 6))):
        k = draw(st.sampled_from(["deposit", "deposit", "roundtrip", "withdraw"]))
        if k == "withdraw":
            ops.append(["withdraw", draw(st.sampled_from(["0.5", "1", "1.000001", "2", None]))])
            continue
        usd = draw(st.sampled_from([1.0, 1000.0, 1e6, gap * 0.5, gap, gap * 1.5, gap * 2.5]))
        usd = max(usd, 0.01)
        side = draw(st.sampled_from(["long", "short", "both"]))
        aL = usd / pL if side in ("long", "both") else 0.0
        aS = usd / pS * (0.5 if side == "both" else 1.0) if side in ("short", "both") else 0.0
        ops.append([k, aL, aS])
    fees = draw(st.sampled_from([None, None, None, {"dp": 0.0005, "dn": 0.0007, "wp": 0.0005, "wn": 0.002}, {"dp": 0.001, "dn": 0.0007, "wp": 0.0005, "wn": 0.0007}, {"dp": 0.0002, "dn": 0.003, "wp": 0.0009, "wn": 0.0004}]))
    return {"fees": fees, "v": 2, "longAmount": longAmount, "shortAmount": shortAmount, "virtualSwapInventoryLong": vL, "virtualSwapInventoryShort": vS, "poolValue": pool, "marketTokensSupply": supply, "impactPoolAmount": ipool,
            "longPrice": pL, "shortPrice": pS, "indexPrice": pL, "ops": ops, "wallet": {"long": draw(st.sampled_from(["0", "5", "1000000000"])), "short": draw(st.sampled_from(["0", "10000", "1000000000000000"]))}}


def rel(a, b, tol=1e-9):
    return abs(a - b) <= tol * max(abs(a), abs(b)) + 1e-12


def body_v2(case, ctx: Ctx):
    broker, m, lt, stt, actions = gmx.v2_market(case, case["wallet"])
    labels = {"v2.fees.configured" if case.get("fees") else "v2.fees.default"}
    nontrivial = False
    pL, pS = case["longPrice"], case["shortPrice"]

    def deposit(aL, aS):
        nonlocal nontrivial
        held0 = m.amount
        w0 = (broker.assets[lt].balance, broker.assets[stt].balance)
        try:
            res = m.deposit(aL, aS)
            ok = True
        except Exception:  # noqa
            ok, res = False, None
        try:
            gm, fL, fS, imp, applied = gmx.v2_deposit(case, aL, aS)
        except ZeroDivisionError:
            gm = None
        if gm is not None and gm < 0:
            # the negative impact exceeds what is deposited: nothing can be minted, the holding must not go negative
            ctx.check(not ok, "v2.deposit.negative_mint", lambda: f"deposit({aL}, {aS}) accepted although the negative impact {imp} exceeds the deposit: minted {res.gm_amount} GM, holding {held0} -> {m.amount}", case)
            labels.add("v2.deposit.negative_mint.rejected")
            if not ok:
                ctx.check(m.amount == held0, "v2.deposit.negative_mint.state", lambda: f"rejected deposit changed the holding {held0} -> {m.amount}", case)
            return None
        if not ok:
            labels.add("v2.deposit.rejected")
            return None
        ctx.check(rel(res.gm_amount, gm), "v2.deposit.minted", lambda: f"deposit({aL}, {aS}) minted {res.gm_amount} GM; pool value per share with fee factors and capped impact gives {gm} (impact {imp})", case)
        ctx.check(rel(res.long_fee, fL) and rel(res.short_fee, fS), "v2.deposit.fee", lambda: f"fees {res.long_fee}/{res.short_fee} vs {fL}/{fS} (impact {imp})", case)
        ctx.check(rel(res.price_impact_usd, imp), "v2.deposit.impact", lambda: f"impact {res.price_impact_usd} vs {imp}", case)
        ctx.check(abs(m.amount - held0 - gm) <= 1e-7 * gm + 1e-12 * max(held0, m.amount), "v2.deposit.holding", lambda: f"holding {held0} -> {m.amount}, minted {gm}", case)
        w1 = (broker.assets[lt].balance, broker.assets[stt].balance)
        for a, x0, x1, nm in ((aL, w0[0], w1[0], "long"), (aS, w0[1], w1[1], "short")):
            paid = float(x0 - x1)
            ctx.check(abs(paid - a) <= 1e-9 * a + 1e-12 * float(x0) or (x1 == 0 and x0 > 0 and abs(float(x0) - a) / float(x0) < 1e-5), "v2.deposit.paid", lambda: f"{nm} wallet {x0} -> {x1} for a deposit of {a}", case)
        if imp > 0:
            labels.add("v2.impact.positive")
            if applied < imp * (1 - 1e-9):
                labels.add("v2.impact.capped")
        if imp < 0:
            labels.add("v2.impact.negative")
        PL, PS = case["longAmount"] * pL, case["shortAmount"] * pS
        if (PL <= PS) != (PL + aL * pL <= PS + aS * pS):
            labels.add("v2.crossover")
        if imp < 0 and case["virtualSwapInventoryLong"] is not None:
            real = gmx._impact(PL, PS, PL + aL * pL, PS + aS * pS)
            if imp < real:
                labels.add("v2.virtual_used")
        if imp != 0:
            nontrivial = True
        return res, applied

    def withdraw(g):
        held0 = m.amount
        w0 = (broker.assets[lt].balance, broker.assets[stt].balance)
        req = held0 if g is None else g
        try:
            res = m.withdraw(g)
            ok = True
        except Exception:  # noqa
            ok, res = False, None
        if req > held0 * (1 + 1e-12) + 1e-18:
            ctx.check(not ok, "v2.overwithdraw", lambda: f"withdraw({g}) accepted with only {held0} GM held: holding now {m.amount}", case)
            labels.add("v2.overwithdraw.rejected")
            if not ok:
                ctx.check(m.amount == held0 and (broker.assets[lt].balance, broker.assets[stt].balance) == w0, "v2.overwithdraw.state", lambda: f"rejected withdrawal changed state: holding {held0} -> {m.amount}", case)
            return None
        if not ok or req <= 0:
            return None
        lo, so = gmx.v2_withdraw(case, req)
        ctx.check(rel(res.long_amount, lo) and rel(res.short_amount, so), "v2.withdraw.amounts", lambda: f"withdraw({req}) paid {res.long_amount} / {res.short_amount}; pro rata pool value with the fee factor gives {lo} / {so}", case)
        w1 = (broker.assets[lt].balance, broker.assets[stt].balance)
        ctx.check(abs(float(w1[0] - w0[0]) - lo) <= 1e-7 * lo + 1e-12 * float(w1[0]) and abs(float(w1[1] - w0[1]) - so) <= 1e-7 * so + 1e-12 * float(w1[1]), "v2.withdraw.received", lambda: f"wallet {w0} -> {w1}, expected +{lo} / +{so}", case)
        ctx.check(abs(held0 - m.amount - req) <= 1e-7 * req + 1e-12 * held0 and m.amount >= -1e-9 * max(held0, 1), "v2.withdraw.holding", lambda: f"holding {held0} -> {m.amount} for {req}", case)
        return res

    for op in case["ops"]:
        if op[0] == "deposit":
            deposit(op[1], op[2])
        elif op[0] == "withdraw":
            f = op[1]
            withdraw(None if f is None else m.amount * float(f) if m.amount > 0 else float(f))
        else:
            r = deposit(op[1], op[2])
            if r:
                res, applied = r
                back = withdraw(res.gm_amount)
                if back is not None:
                    labels.add("v2.roundtrip")
                    paid = op[1] * pL + op[2] * pS
                    got = back.long_amount * pL + back.short_amount * pS
                    profit = got - paid
                    if profit > 1e-9 * paid:
                        if applied > 0 and profit <= applied * (1 + 1e-9):
                            ctx.fail("v2.roundtrip.profit_within_positive_impact", f"deposit({op[1]}, {op[2]}) then withdraw returned {got} USD for {paid} USD paid: profit {profit} <= positive impact {applied} paid from the impact pool", case)
                        else:
                            ctx.fail("v2.roundtrip.profit", f"deposit({op[1]}, {op[2]}) then withdraw returned {got} USD for {paid} USD paid (applied positive impact {applied})", case)
    ctx.case(case, nontrivial, sorted(labels))


def body(case, ctx):
    return body_v1(case, ctx) if case["v"] == 1 else body_v2(case, ctx)


def shards(tier, seed):
    n1, n2 = (2500, 3000) if tier == "quick" else (50000, 60000)
    return [{"sub": "v1", "idx": i, "n": n1, "seed": derive_seed(seed, PROPERTY, "v1", i)} for i in range(8)] + [{"sub": "v2", "idx": i, "n": n2, "seed": derive_seed(seed, PROPERTY, "v2", i)} for i in range(8)]


def run_shard(spec):
    ctx = Ctx(PROPERTY, spec["sub"])
    v = run_given(ctx, st_v1() if spec["sub"] == "v1" else st_v2(), body, spec["n"], spec["seed"])
    return ctx.result(v)


def replay(rec):
    return replay_body(PROPERTY, body, rec["case"], rec["sub"])
