"""C15 — option orders fill best-first at displayed sizes; cash, fee, position and equity exact."""
import copy
from decimal import Decimal

from vf import deribit as dw
from vf.deribit import CFG, dd, match, rhu, trade_fee
from vf.engine import Ctx, derive_seed, replay_body, run_given
from vf.gen.deribit import st_book_case

PROPERTY = "C15"
RULE = (
    "generated order books (ETH and BTC configurations; 1-3 instruments; 0-8 levels per side on the tick grid, best "
    "first, bids <= mark <= asks, integer and float sizes as json.loads produces them) x sequences of 1-7 buys / sells "
    "per bar over 1-2 hourly bars in every pricing mode (market, limit in token with +-0.05% / +-0.2% jitter, limit in "
    "USD, cap relative to mark, cap + limit), sizes from below the minimum through exactly the first level, first + "
    "second level, total depth, to beyond it; every step is validated against a Decimal reference matching engine "
    "applied to the book the market shows before the order. Non-trivial = an order filled across >= 2 levels, or an "
    "order on a level already partly consumed in this bar."
)
ASSUMPTIONS = [
    "decisions whose reference margin (requested vs available size, cost vs cash) is below 1e-9 are not asserted: book sizes are floats",
    "a limit price selects the first level (best first) within +-0.1% of it; books of expensive options have neighbouring levels inside one such window",
]
MIN_NONTRIVIAL = {"quick": 1000, "thorough": 20000}
REQUIRED_LABELS = ["buy.fill", "sell.fill", "multi_level", "partly_consumed_level", "mode.market", "mode.token", "mode.usd", "mode.cap", "reject.depth", "reject.cash", "reject.not_held", "refresh", "cfg.BTC", "sizes.float", "estimate_cost", "limit.window_two_levels"]

EPS = Decimal("1e-9")


def visible(m, name):
    row = m.market_status.data.loc[name]
    return copy.deepcopy(list(row.asks)), copy.deepcopy(list(row.bids))


def pos_snapshot(m):
    return {k: (p.amount, p.avg_buy_price, p.buy_amount, p.avg_sell_price, p.sell_amount) for k, p in m.positions.items()}


def books(m, case):
    return {i["name"]: visible(m, i["name"]) for i in case["instruments"]}


def near(a, b, tol=Decimal("1e-28")):
    a, b = dd(a), dd(b)
    return abs(a - b) <= tol * max(abs(a), abs(b), Decimal(1))


def body(case, ctx: Ctx):
    cfg = case["cfg"]
    fs = CFG[cfg]["fee_step"]
    tok = dw.token(cfg)
    df = dw.frame({h: case["instruments"] for h in range(len(case["bars"]))})
    pristine = copy.deepcopy({(k[0], k[1]): (copy.deepcopy(v["asks"]), copy.deepcopy(v["bids"])) for k, v in df.iterrows()})
    broker, m, actions = dw.static_market(cfg, df, case["cash"], case["wallet"])
    labels = {f"cfg.{cfg}"}
    if any(isinstance(s, float) for i in case["instruments"] for _, s in i["asks"] + i["bids"]):
        labels.add("sizes.float")
    nontrivial = False
    under = case["instruments"][0]["underlying"]
    first = True
    for b, ops in enumerate(case["bars"]):
        ctx.guarded("refresh", case, dw.set_hour, m, cfg, dw.hour(b), under)
        if first:
            m.deposit(Decimal(case["cash"]))
            first = False
        if b > 0:
            labels.add("refresh")
        # a refreshed bar shows the book of the data, whatever was consumed before
        for ins in case["instruments"]:
            a, bd = visible(m, ins["name"])
            ctx.check(a == ins["asks"] and bd == ins["bids"], "refresh.book", lambda: f"bar {b}: visible book of {ins['name']} is {a} / {bd}, data says {ins['asks']} / {ins['bids']}", case)
        touched = set()
        for op in ops:
            cash0 = m.balance
            pos0 = pos_snapshot(m)
            bk0 = books(m, case)
            wal0 = broker.assets[tok].balance
            nact = len(actions)
            if op[0] in ("deposit", "withdraw"):
                amt = Decimal(op[1])
                try:
                    getattr(m, op[0])(amt)
                    ok = True
                except Exception:  # noqa
                    ok = False
                can = (wal0 >= amt) if op[0] == "deposit" else (cash0 >= amt)
                # Asset.sub snaps within 1e-5 relative: only assert away from the boundary
                if op[0] == "deposit" and wal0 != 0 and abs((wal0 - amt) / wal0) < Decimal("0.0001"):
                    continue
                ctx.check(ok == can, f"{op[0]}.outcome", lambda: f"{op[0]} {amt} with wallet {wal0} cash {cash0}: {'accepted' if ok else 'rejected'}", case)
                if ok:
                    sign = 1 if op[0] == "deposit" else -1
                    ctx.check(m.balance == cash0 + sign * amt and broker.assets[tok].balance == wal0 - sign * amt, f"{op[0]}.amounts", lambda: f"{op[0]} {amt}: cash {cash0}->{m.balance} wallet {wal0}->{broker.assets[tok].balance}", case)
                else:
                    ctx.check(m.balance == cash0 and broker.assets[tok].balance == wal0, f"{op[0]}.rejected_changed", lambda: f"rejected {op[0]} changed balances", case)
                continue
            kind, i, amount, mode = op
            if i == "@held":
                held_idx = [k for k, x in enumerate(case["instruments"]) if x["name"] in m.positions]
                i = held_idx[0] if held_idx else 0
                if mode[0] != "market" and mode[0] != "cap":
                    mode = ["market"]  # the generated limit price belonged to another instrument
            ins = case["instruments"][i]
            name = ins["name"]
            is_buy = kind == "buy"
            asks0, bids0 = bk0[name]
            side0 = asks0 if is_buy else bids0
            kw = {}
            if mode[0] == "token":
                kw["price_in_token"] = Decimal(mode[1])
            elif mode[0] == "usd":
                kw["price_in_usd"] = Decimal(mode[1])
            if mode[0] == "cap":
                kw["max_mark_price_multiple"] = Decimal(mode[1])
            elif len(mode) > 3 and mode[3] is not None:
                kw["max_mark_price_multiple"] = Decimal(mode[3])
            labels.add(f"mode.{mode[0]}" if not (len(mode) > 3 and mode[3]) else "mode.cap")
            est = None
            # (only market orders: the estimate takes a limit price literally while buy() takes the first level within +-0.1%)
            if is_buy and mode[0] == "market" and not any(tn == name and tb for tn, tb, _ in touched):
                # the public cost estimate of the same order on an untouched book (it reads the bar's data row)
                try:
                    est = m.estimate_cost(name, Decimal(amount), "buy", kw.get("price_in_token"))
                except Exception:  # noqa: an order that cannot be filled has no estimate
                    est = None
            try:
                ret = (m.buy if is_buy else m.sell)(name, Decimal(amount), **kw)
                ok, err = True, None
            except Exception as e:  # noqa: a rejected order is an outcome
                ok, err, ret = False, e, None
            exp = match(cfg, side0, amount, mode, ins["mark"], ins["underlying"], is_buy)
            if mode[0] in ("token", "usd"):
                lp_ = Decimal(mode[1]) / (dd(ins["underlying"]) if mode[0] == "usd" else 1)
                if sum(1 for lv in side0 if Decimal("0.999") * lp_ < dd(lv[0]) < Decimal("1.001") * lp_) >= 2:
                    labels.add("limit.window_two_levels")
            if ins["state"] != "open":
                exp = ("reject", "closed instrument")
            margin = Decimal(1)
            if exp[0] == "reject" and len(exp) > 2:
                margin = exp[2]
            held = pos0.get(name, (Decimal(0),) * 5)
            if exp[0] == "fill":
                _, amt, fills, margin = exp
                premium = sum((p * s for p, s in fills), Decimal(0))
                fee = trade_fee(cfg, amt, premium)
                if is_buy and cash0 < premium + fee:
                    margin = min(margin, abs(cash0 - premium - fee))
                    exp = ("reject", "cash")
                elif not is_buy and held[0] < amt:
                    exp = ("reject", "not held")
            sig = f"{kind}.{mode[0]}"
            if margin < EPS:
                labels.add("boundary.skipped")
                if ok:
                    # whichever side of the boundary the order fell on, what was credited must be what was filled and paid
                    labels.add("boundary.accepted")
                    orders, got_fee = ret
                    filled = sum((dd(o.amount) for o in orders), Decimal(0))
                    prem = sum((dd(o.price) * dd(o.amount) for o in orders), Decimal(0))
                    d_pos = pos_snapshot(m).get(name, (Decimal(0),))[0] - held[0]
                    ctx.check(d_pos == (filled if is_buy else -filled), f"{sig}.boundary.position_vs_fills", lambda: f"{kind} {amount} {name} mode {mode}: position changed by {d_pos} but the fills {[(str(o.price), str(o.amount)) for o in orders]} add up to {filled}", case)
                    exp_cash = cash0 - prem - got_fee if is_buy else cash0 + prem - got_fee
                    ctx.check(m.balance == exp_cash, f"{sig}.boundary.cash_vs_fills", lambda: f"{kind} {amount} {name} mode {mode}: cash {cash0} -> {m.balance}, fills are worth {prem}, fee {got_fee}", case)
                    for o in orders:
                        touched.add((name, is_buy, dd(o.price)))
                continue
            if exp[0] == "reject":
                why = exp[1]
                labels.add({"insufficient depth": "reject.depth", "level too small": "reject.depth", "cash": "reject.cash", "not held": "reject.not_held"}.get(why, "reject.other"))
                ctx.check(not ok, f"{sig}.accepted_but_{why.replace(' ', '_')}", lambda: f"{kind} {amount} {name} mode {mode} accepted although: {why}; book {side0}, cash {cash0}, held {held[0]}; returned {ret}", case)
                if not ok:
                    same = m.balance == cash0 and pos_snapshot(m) == pos0 and books(m, case) == bk0 and len(actions) == nact and broker.assets[tok].balance == wal0
                    ctx.check(same, f"{sig}.rejected_changed_state", lambda: f"rejected {kind} {amount} {name} ({why}; {type(err).__name__}: {err}) changed state: cash {cash0}->{m.balance}, positions {pos0}->{pos_snapshot(m)}, book {bk0[name]}->{books(m, case)[name]}", case)
                continue
            # ---- expected fill
            ctx.check(ok, f"{sig}.rejected_but_fillable", lambda: f"{kind} {amount} {name} mode {mode} rejected ({type(err).__name__}: {err}) although the book {side0} fills it as {fills} (cash {cash0}, held {held[0]})", case)
            if not ok:
                continue
            labels.add(f"{kind}.fill")
            orders, got_fee = ret
            got = [(dd(o.price), dd(o.amount)) for o in orders]
            ctx.check(len(got) == len(fills) and all(g[0] == f[0] and g[1] == f[1] for g, f in zip(got, fills)), f"{sig}.fills", lambda: f"{kind} {amount} {name} mode {mode} on {side0}: filled {got}, expected {fills}", case)
            if est is not None:
                labels.add("estimate_cost")
                ctx.check(est == premium + fee, f"{sig}.estimate_cost", lambda: f"estimate_cost said {est}; the order then cost {premium} + fee {fee}", case)
            ctx.check(got_fee == fee, f"{sig}.fee", lambda: f"fee {got_fee} vs min(0.03% x {amt}, 12.5% x {premium}) = {fee}", case)
            exp_cash = cash0 - premium - fee if is_buy else cash0 + premium - fee
            ctx.check(m.balance == exp_cash, f"{sig}.cash", lambda: f"cash {cash0} -> {m.balance}, expected {exp_cash} (premium {premium}, fee {fee})", case)
            ctx.check(broker.assets[tok].balance == wal0, f"{sig}.wallet", lambda: "an order changed the wallet", case)
            # position
            pos1 = pos_snapshot(m)
            avg = premium / amt
            if is_buy:
                na = held[0] + amt
                nbuy = held[2] + amt
                navg = (avg * amt + dd(held[1]) * held[2]) / nbuy
                exp_pos = (na, navg, nbuy, held[3], held[4])
            else:
                na = held[0] - amt
                nsell = held[4] + amt
                navg = (avg * amt + dd(held[3]) * held[4]) / nsell
                exp_pos = (na, held[1], held[2], navg, nsell)
            if na == 0:
                ctx.check(name not in pos1, f"{sig}.position_left", lambda: f"position {name} should be gone, is {pos1.get(name)}", case)
            else:
                gp = pos1.get(name)
                ctx.check(gp is not None and gp[0] == exp_pos[0] and gp[2] == exp_pos[2] and gp[4] == exp_pos[4] and near(gp[1], exp_pos[1]) and near(gp[3], exp_pos[3]), f"{sig}.position", lambda: f"position {name}: {gp}, expected {exp_pos}", case)
            for k in set(pos0) | set(pos1):
                if k != name:
                    ctx.check(pos0.get(k) == pos1.get(k), f"{sig}.other_position", lambda: f"{kind} on {name} changed position {k}", case)
            # visible book afterwards
            bk1 = books(m, case)
            exp_side = [[p, dd(s)] for p, s in side0]
            for fp, fsz in fills:
                for lv in exp_side:
                    if dd(lv[0]) == fp:
                        lv[1] -= fsz
                        break
            got_side = bk1[name][0 if is_buy else 1]
            ctx.check(len(got_side) == len(exp_side) and all(g[0] == e[0] and abs(dd(g[1]) - e[1]) <= EPS and dd(g[1]) >= -EPS for g, e in zip(got_side, exp_side)), f"{sig}.book_after", lambda: f"visible {'asks' if is_buy else 'bids'} of {name} after {fills}: {got_side}, expected {exp_side}", case)
            ctx.check(bk1[name][1 if is_buy else 0] == bk0[name][1 if is_buy else 0], f"{sig}.other_side", lambda: "the other side of the book changed", case)
            for k in bk0:
                if k != name:
                    ctx.check(bk0[k] == bk1[k], f"{sig}.other_book", lambda: f"{kind} on {name} changed the book of {k}", case)
            # the record
            acts = actions[nact:]
            ctx.check(len(acts) == 1 and type(acts[0]).__name__ == ("BuyAction" if is_buy else "SellAction"), f"{sig}.record", lambda: f"records {[type(a).__name__ for a in acts]}", case)
            if len(acts) == 1:
                a = acts[0]
                ctx.check(a.amount == amt and a.total_premium == premium and a.fee == fee and near(a.average_price, avg) and a.instrument_name == name, f"{sig}.record_fields", lambda: f"record amount {a.amount} premium {a.total_premium} fee {a.fee} avg {a.average_price}; expected {amt} {premium} {fee} {avg}", case)
            # equity = cash + positions at mark
            bal = m.get_market_balance()
            marks = {x["name"]: rhu(dd(x["mark"]), fs) for x in case["instruments"]}
            eq = m.balance + sum((p[0] * marks[k] for k, p in pos1.items()), Decimal(0))
            ctx.check(bal.net_value == eq and bal.balance == m.balance, f"{sig}.equity", lambda: f"equity {bal.net_value} vs cash {m.balance} + positions at mark = {eq}", case)
            if len(fills) >= 2:
                labels.add("multi_level")
                nontrivial = True
            if any((name, is_buy, fp) in touched for fp, _ in fills):
                labels.add("partly_consumed_level")
                nontrivial = True
            for (fp, fsz), lv in zip(fills, exp_side):
                pass
            for fp, fsz in fills:
                touched.add((name, is_buy, fp))
    # the supplied frame is untouched
    now = {(k[0], k[1]): (v["asks"], v["bids"]) for k, v in m.data.iterrows()}
    ctx.check(now == pristine, "data.mutated", lambda: "orders changed the supplied market data frame", case)
    ctx.case(case, nontrivial, sorted(labels))


def shards(tier, seed):
    n = 900 if tier == "quick" else 18000
    return [{"sub": "book", "idx": i, "n": n, "seed": derive_seed(seed, PROPERTY, "book", i)} for i in range(16)]


def run_shard(spec):
    ctx = Ctx(PROPERTY, spec["sub"])
    v = run_given(ctx, st_book_case(), body, spec["n"], spec["seed"])
    return ctx.result(v)


def replay(rec):
    return replay_body(PROPERTY, body, rec["case"], rec["sub"])
