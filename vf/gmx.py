"""GMX worlds (v1 GLP, v2 GM) from generated plain data, plus integer / float reference formulas."""
from __future__ import annotations

from decimal import Decimal
from fractions import Fraction

import pandas as pd

D = Decimal
V1_TOKENS = {"btc.b": 8, "weth": 18, "wbtc": 8, "wavax": 18, "mim": 18, "usdc.e": 6, "usdc": 6}
P30 = 10**30


def v1_row(case):
    """Series shaped like a row of load_gmx_v1_data(): Decimal for glp / aum / glp_price / weth_price / wavax_price,
    Python ints for the other big numbers, numpy int64 weights, float interval."""
    import numpy as np

    d = {}
    for t in case["tokens"]:
        n = t["name"]
        price = int(t["price"])
        d[f"{n}_price"] = D(price) if n in ("weth", "wavax") else price
        d[f"{n}_usdg"] = int(t["usdg"])
        d[f"{n}_weight"] = np.int64(t["weight"])
    d["usdg"] = int(case["usdg"])
    d["glp"] = D(case["glp"])
    d["aum"] = D(case["aum"])
    d["glp_price"] = D(case["aum"]) / D(case["glp"]) / D(10**12)
    d["interval"] = float(case["interval"])
    return pd.Series(d, dtype=object)


def v1_market(case, wallet):
    from demeter import Broker, MarketInfo, MarketStatus, MarketTypeEnum, TokenInfo
    from demeter.gmx import GmxMarket

    toks = {t["name"]: TokenInfo(t["name"], V1_TOKENS[t["name"]]) for t in case["tokens"]}
    actions = []
    broker = Broker(record_action_callback=actions.append)
    reg = case.get("register", "once")
    if reg == "later":  # tokens registered one by one after construction
        m = GmxMarket(MarketInfo("gmx", MarketTypeEnum.gmx_v1), tokens=[])
        for t in toks.values():
            m.add_token(t)
    else:
        m = GmxMarket(MarketInfo("gmx", MarketTypeEnum.gmx_v1), tokens=list(toks.values()))
    if reg == "twice":  # registering a token that is already known changes nothing
        m.add_token(list(toks.values())[0])
        m.add_token(list(toks.values()))
    broker.add_market(m)
    for n, a in wallet.items():
        broker.set_balance(toks[n], D(a))
    row = v1_row(case)
    price = pd.Series({"WETH": row["weth_price"] / P30, "WAVAX": row["wavax_price"] / P30})
    m.set_market_status(MarketStatus(pd.Timestamp("2024-10-15"), row), price)
    return broker, m, toks, actions, row


# ---- v1 integer reference (Vault / VaultUtils / GlpManager)
def v1_target(case, name):
    tw = sum(int(t["weight"]) for t in case["tokens"])
    w = next(int(t["weight"]) for t in case["tokens"] if t["name"] == name)
    return w * int(case["usdg"]) // tw


def v1_fee_bps(case, name, usdg_delta: int, increase: bool, base=25, tax=60) -> int:
    initial = next(int(t["usdg"]) for t in case["tokens"] if t["name"] == name)
    nxt = initial + usdg_delta
    if not increase:
        nxt = 0 if usdg_delta > initial else initial - usdg_delta
    target = v1_target(case, name)
    if target == 0:
        return base
    idiff = abs(initial - target)
    ndiff = abs(nxt - target)
    if ndiff < idiff:
        rebate = tax * idiff // target
        return 0 if rebate > base else base - rebate
    avg = (idiff + ndiff) // 2
    if avg > target:
        avg = target
    return base + tax * avg // target


def v1_branch(case, name, usdg_delta: int, increase: bool) -> str:
    initial = next(int(t["usdg"]) for t in case["tokens"] if t["name"] == name)
    nxt = initial + usdg_delta if increase else max(0, initial - usdg_delta)
    target = v1_target(case, name)
    if target == 0:
        return "flat"
    if abs(nxt - target) < abs(initial - target):
        return "rebate"
    return "tax" if 60 * ((abs(initial - target) + abs(nxt - target)) // 2) // target > 0 else "flat"


def v1_buy(case, name, amount: Fraction, bps: Fraction):
    """(usdg before fee, minted glp in 1e18 units) for `amount` tokens (token units, not wei) at fee `bps`."""
    price = next(int(t["price"]) for t in case["tokens"] if t["name"] == name)
    usdg0 = (amount * price * 10**18 / P30).__floor__()
    after = amount * (1 - bps / 10000)
    mint_usdg = (after * price * 10**18 / P30).__floor__()
    aum_usdg = int(D(case["aum"])) // 10**12
    glp_wei = mint_usdg * int(D(case["glp"])) // aum_usdg
    return usdg0, glp_wei


def v1_sell_usdg(case, glp: Fraction) -> int:
    aum_usdg = int(D(case["aum"])) // 10**12
    return (glp * 10**18 * aum_usdg / int(D(case["glp"]))).__floor__()


def v1_sell_out(case, name, usdg: int, bps: Fraction) -> Fraction:
    price = next(int(t["price"]) for t in case["tokens"] if t["name"] == name)
    return Fraction(usdg) * P30 / price * (1 - bps / 10000) / 10**18


# ---- v2
def v2_market(case, wallet):
    from demeter import Broker, MarketInfo, MarketTypeEnum, TokenInfo
    from demeter.gmx import GmxV2Market
    from demeter.gmx._typing2 import GmxV2MarketStatus, GmxV2Pool

    lt, st_ = TokenInfo("WETH", 18), TokenInfo("USDC", 6)
    actions = []
    broker = Broker(record_action_callback=actions.append)
    cols = ["longAmount", "shortAmount", "virtualSwapInventoryLong", "virtualSwapInventoryShort", "poolValue", "marketTokensSupply", "impactPoolAmount", "longPrice", "shortPrice", "indexPrice"]
    ts = pd.Timestamp("2024-10-15")
    df = pd.DataFrame([[float(case[c]) if case[c] is not None else None for c in cols]], columns=cols, index=[ts])
    m = GmxV2Market(MarketInfo("gm", MarketTypeEnum.gmx_v2), GmxV2Pool(lt, st_, lt), data=df)
    fc = case.get("fees")
    if fc:  # a pool configured with its own fee factors (GmxV2Market.pool_config)
        from demeter.gmx.gmx_v2 import PoolConfig

        m.pool_config = PoolConfig(18, 6, depositFeeFactorForPositiveImpact=fc["dp"], depositFeeFactorForNegativeImpact=fc["dn"], withdrawFeeFactorForPositiveImpact=fc["wp"], withdrawFeeFactorForNegativeImpact=fc["wn"])
    broker.add_market(m)
    broker.set_balance(lt, D(wallet["long"]))
    broker.set_balance(st_, D(wallet["short"]))
    m.set_market_status(GmxV2MarketStatus(ts, None), pd.Series({"WETH": D(str(case["longPrice"])), "USDC": D(str(case["shortPrice"]))}))
    return broker, m, lt, st_, actions


FP, FN = 2e-10, 4e-10


def _impact(a0, b0, a1, b1):
    d0, d1 = abs(a0 - b0), abs(a1 - b1)
    same = (a0 <= b0) == (a1 <= b1)
    fp = min(FP, FN)
    if same:
        pos = d1 < d0
        f = fp if pos else FN
        v = abs(d0**2 * f - d1**2 * f)
        return v if pos else -v
    p, n = d0**2 * fp, d1**2 * FN
    return abs(p - n) if p > n else -abs(p - n)


def v2_deposit(case, aL: float, aS: float):
    """reference: (gm minted, long fee, short fee, impact usd, applied positive impact usd)"""
    pL, pS = float(case["longPrice"]), float(case["shortPrice"])
    uL, uS = aL * pL, aS * pS
    PL, PS = float(case["longAmount"]) * pL, float(case["shortAmount"]) * pS
    imp = _impact(PL, PS, PL + uL, PS + uS)
    if imp < 0 and case["virtualSwapInventoryLong"] is not None and case["virtualSwapInventoryShort"] is not None:
        VL, VS = float(case["virtualSwapInventoryLong"]) * pL, float(case["virtualSwapInventoryShort"]) * pS
        v = _impact(VL, VS, VL + uL, VS + uS)
        if v < imp:
            imp = v
    pool, supply, ipool = float(case["poolValue"]), float(case["marketTokensSupply"]), float(case["impactPoolAmount"])
    gm = 0.0
    fees = [0.0, 0.0]
    applied = 0.0
    for k, (a, p, po, u) in enumerate(((aL, pL, pS, uL), (aS, pS, pL, uS))):
        if a <= 0:
            continue
        ik = imp * u / (uL + uS)
        fc = case.get("fees") or {"dp": 0.0005, "dn": 0.0007}
        ff = fc["dp"] if ik > 0 else fc["dn"]
        fee = a * ff
        after = a - fee
        if ik > 0:
            bonus = min(ik / po, ipool)
            gm += supply * (bonus * po) / pool
            applied += bonus * po
        if ik < 0:
            after -= -(ik / p)
        gm += supply * (after * p) / pool
        fees[k] = fee
    return gm, fees[0], fees[1], imp, applied


def v2_withdraw(case, g: float):
    pL, pS = float(case["longPrice"]), float(case["shortPrice"])
    PL, PS = float(case["longAmount"]) * pL, float(case["shortAmount"]) * pS
    usd = float(case["poolValue"]) * g / float(case["marketTokensSupply"])
    lo = usd * PL / (PL + PS) / pL
    so = usd * PS / (PL + PS) / pS
    wn = (case.get("fees") or {"wn": 0.0007})["wn"]
    return lo * (1 - wn), so * (1 - wn)
