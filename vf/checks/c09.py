"""C09 — token order is immaterial: a pool and its mirror (tokens swapped, ticks negated) give the same economic results."""
from decimal import Decimal

import pandas as pd
from hypothesis import strategies as st

from vf import world
from vf.engine import Ctx, derive_seed, replay_body, run_given

PROPERTY = "C09"
RULE = (
    "pool A (token0 is the quote token) and its mirror B (token order, decimals and per-token volumes swapped, ticks "
    "negated) are driven by the same generated program expressed in base / quote terms: adds by tick (mirrored as "
    "(-upper, -lower), default price and an explicit tick exactly on the lower / upper bound or inside) and by price, "
    "partial / full removes, collects, buy, sell, swap, even_rebalance, add_liquidity_by_value, estimate_amount, "
    "estimate_liquidity, get_position_status, get_market_balance, and bars with mirrored tick paths (fee accrual), with "
    "the price below, inside and above the ranges. Every returned amount, liquidity, fee, value and wallet balance is "
    "compared in base / quote terms. Non-trivial = >= 1 position created and >= 1 orientation-dependent helper run."
)
ASSUMPTIONS = [
    "bar closes are never multiples of the tick spacing, so no close sits exactly on a range bound (the half-open tick range [lower, upper) mirrors to (-upper, -lower], see DESIGN C09 rule (i)); explicit on-bound prices are used for the exact operations only",
    "1e-12 relative is taken relative to the size of the account (wallet plus positions, in the compared token), not to the compared pair alone",
    "estimate-based helpers are compared only when the price is at least two tick spacings away from the range bounds, at max(0.1%, 1.5 / distance to the nearest bound in ticks): they work on the floor tick of the price, whose mirror image is one tick away",
    "add_liquidity_by_value is compared at max(1%, 20 / distance): the split estimate's one-tick error is amplified by whichever token ends up binding; gross (orientation) errors are orders of magnitude larger",
    "liquidity (an integer) may differ by 1e-9 relative + 4 units between orientations (wei truncation happens on different tokens)",
]
MIN_NONTRIVIAL = {"quick": 8000, "thorough": 150000}
REQUIRED_LABELS = ["op.add_tick", "op.add_price", "op.remove", "op.collect", "op.buy", "op.sell", "op.swap", "op.rebalance", "op.add_value", "op.est_amount", "op.est_liq", "op.status", "op.bar", "region.below", "region.inside", "region.above", "at_bound", "fee.crossing", "est_liq.out_of_range", "op.rbar"]

SP = {"0.05": 10, "0.3": 60, "1": 200}


@st.composite
def st_case(draw):
    dq, db = draw(st.sampled_from([6, 18, 8])), draw(st.sampled_from([18, 6, 8]))
    fee = draw(st.sampled_from(["0.05", "0.3", "1"]))
    sp = SP[fee]
    center = draw(st.integers(-400, 400)) * sp * 5

    def off_grid(t):
        return t if t % sp else t + draw(st.sampled_from([1, 3, sp - 1]))

    t0 = off_grid(center + draw(st.integers(-30 * sp, 30 * sp)))
    ops = []
    npos = 0
    for _ in range(draw(st.integers(2, 10))):
        k = draw(st.sampled_from(["add_tick", "add_tick", "add_price", "remove", "collect", "buy", "sell", "swap", "rebalance", "add_value", "est_amount", "est_liq", "status", "bar", "bar"]))
        lo = center + draw(st.integers(-25, 20)) * sp
        hi = lo + draw(st.integers(1, 30)) * sp
        if k == "add_tick":
            at = draw(st.sampled_from([None, None, "lower", "upper", "inside", "t1", "tm1"]))
            # bounds on the spacing grid, or off it (trimmed to the nearest usable tick: incl. exact ties at half a spacing)
            jl, jh = draw(st.sampled_from([0, 0, 0, sp // 2, 1, sp - 1])), draw(st.sampled_from([0, 0, 0, sp // 2, 1, sp - 1]))
            ops.append(["add_tick", lo + jl, hi + jh, draw(st.sampled_from(["0.5", "3", "0"])), draw(st.sampled_from(["1000", "20", "0"])), at])
            npos += 1
        elif k == "add_price":
            ops.append(["add_price", lo, hi, draw(st.sampled_from(["0.5", "2"])), draw(st.sampled_from(["1500", "40"]))])
            npos += 1
        elif k in ("remove", "collect", "est_liq", "status"):
            ops.append([k, draw(st.integers(0, 3)), draw(st.sampled_from(["1", "0.5", "0.1"])), draw(st.sampled_from(["100", "1", "5000"]))])
        elif k in ("buy", "sell"):
            ops.append([k, draw(st.sampled_from(["0.01", "0.7", "0"]))])
        elif k == "swap":
            ops.append(["swap", draw(st.sampled_from(["base", "quote"])), draw(st.sampled_from(["0.05", "25"]))])
        elif k == "rebalance":
            ops.append(["rebalance"])
        elif k in ("add_value", "est_amount"):
            # wide ranges around the price (the estimate works on the floor tick: one tick must be small against the distance
            # to the bounds), or ranges entirely above / below it
            place = draw(st.sampled_from(["around", "around", "above", "below"]))
            if place == "around":
                wlo, whi = center - draw(st.integers(150, 600)) * sp, center + draw(st.integers(150, 600)) * sp
            elif place == "above":
                wlo = center + draw(st.integers(40, 200)) * sp
                whi = wlo + draw(st.integers(1, 300)) * sp
            else:
                whi = center - draw(st.integers(40, 200)) * sp
                wlo = whi - draw(st.integers(1, 300)) * sp
            if k == "add_value":
                ops.append(["add_value", wlo, whi, draw(st.sampled_from([None, "100", "2500"]))])
                npos += 1
            else:
                ops.append(["est_amount", wlo, whi, draw(st.sampled_from(["100", "7"]))])
        else:
            if draw(st.integers(0, 3)) == 0:
                # a coarser bar: several minute rows (each with its own close and per-token volumes) merged by the package
                mm = draw(st.sampled_from([2, 3, 5]))
                rows = [[off_grid(center + draw(st.integers(-30 * sp, 30 * sp))), str(draw(st.sampled_from([0, 10**db, 3 * 10 ** (db + 2) + 7]))), str(draw(st.sampled_from([0, 10**dq, 5 * 10 ** (dq + 3) + 1])))] for _ in range(mm)]
                ops.append(["rbar", mm, rows])
                continue
            t = off_grid(center + draw(st.integers(-30 * sp, 30 * sp)))
            ops.append(["bar", t, str(draw(st.sampled_from([0, 10**db, 3 * 10 ** (db + 2) + 7]))), str(draw(st.sampled_from([0, 10**dq, 5 * 10 ** (dq + 3) + 1])))])
    return {"dq": dq, "db": db, "fee": fee, "tick": t0, "pool_liq": str(draw(st.sampled_from([10**9, 10**15, 10**21]))), "base": draw(st.sampled_from(["10", "1000"])), "quote": draw(st.sampled_from(["30000", "1000000"])), "ops": ops}


class Side:
    """one orientation of the pool: A (token0 = quote) or its mirror B"""

    def __init__(self, case, mirror: bool):
        from demeter import Broker, MarketInfo
        from demeter.uniswap import UniLpMarket

        self.mirror = mirror
        dq, db = case["dq"], case["db"]
        self.pool = world.uni_pool(dq, db, True, case["fee"]) if not mirror else world.uni_pool(db, dq, False, case["fee"])
        # name the tokens by role so that both sides have the same token names in the wallet
        self.actions = []
        self.broker = Broker(record_action_callback=self.actions.append)
        self.m = UniLpMarket(MarketInfo("uni"), self.pool)
        self.broker.add_market(self.m)
        self.base, self.quote = self.pool.base_token, self.pool.quote_token
        self.broker.set_balance(self.base, Decimal(case["base"]))
        self.broker.set_balance(self.quote, Decimal(case["quote"]))
        self.case = case
        self.k = 0
        self.prev_tick = None
        self.keys = []

    def t(self, tick):
        return -tick if self.mirror else tick

    def rng(self, lo, hi):
        return (-hi, -lo) if self.mirror else (lo, hi)

    def set_bar(self, tick_a, vol_base, vol_quote):
        from demeter.uniswap import UniswapMarketStatus

        tick = self.t(tick_a)
        self.price_tick_a = self.prev_tick if self.prev_tick is not None else tick_a
        prev = self.t(self.prev_tick) if self.prev_tick is not None else tick
        in0, in1 = (vol_quote, vol_base) if not self.mirror else (vol_base, vol_quote)
        ts = world.BASE_DAY + pd.Timedelta(minutes=self.k)
        data = pd.Series([Decimal(in0), Decimal(in1), Decimal(self.case["pool_liq"]), tick, self.m.tick_to_price(prev)], index=["inAmount0", "inAmount1", "currentLiquidity", "closeTick", "price"])
        self.m.set_market_status(UniswapMarketStatus(timestamp=ts, data=data), price=None)
        self.row = (ts, data)
        self.prev_tick = tick_a
        self.k += 1

    def set_rbar(self, mm, rows):
        """a bar of `mm` minute rows merged by the package's own resampling (loader-shaped frame -> market._resample)"""
        from demeter.uniswap import UniswapMarketStatus

        start = -(-self.k // mm) * mm
        ticks = [self.t(r[0]) for r in rows]
        vb, vq = [int(r[1]) for r in rows], [int(r[2]) for r in rows]
        in0, in1 = (vq, vb) if not self.mirror else (vb, vq)
        open_a = self.prev_tick if self.prev_tick is not None else rows[0][0]
        self.m.data = world.uni_frame(self.pool, start, ticks, [int(self.case["pool_liq"])] * len(rows), in0, in1, open_tick=self.t(open_a))
        self.m._resample(f"{mm}min")
        assert len(self.m.data.index) == 1, self.m.data.index
        ts = self.m.data.index[0]
        self.price_tick_a = open_a
        self.m.set_market_status(UniswapMarketStatus(timestamp=ts, data=None), price=None)
        self.row = (ts, self.m.data.loc[ts].copy())
        self.prev_tick = rows[-1][0]
        self.k = start + mm

    def refresh(self):
        from demeter.uniswap import UniswapMarketStatus

        ts, data = self.row
        self.m.set_market_status(UniswapMarketStatus(timestamp=ts, data=data.copy()), price=None)

    def bq(self, a0, a1):
        """(token0, token1) quantities -> (base, quote)"""
        return (a1, a0) if self.pool.is_token0_quote else (a0, a1)

    def wallet(self):
        return (self.broker.assets[self.base].balance, self.broker.assets[self.quote].balance)

    def run(self, op):
        """returns ("ok", {name: (value, unit)}) or ("err", exception class name)"""
        m = self.m
        k = op[0]
        try:
            if k == "add_tick":
                lo, hi = self.rng(op[1], op[2])
                kw = {}
                if op[5] is not None:
                    a = {"lower": op[1], "upper": op[2], "inside": (op[1] + op[2]) // 2 + 1, "t1": 1, "tm1": -1}[op[5]]
                    kw["tick"] = self.t(a)
                pos, bu, qu, L = m.add_liquidity_by_tick(lo, hi, Decimal(op[3]), Decimal(op[4]), **kw)
                self.keys.append(pos)
                return "ok", {"base_used": (bu, "b"), "quote_used": (qu, "q"), "liquidity": (L, "L"), "range": (self.rng_a(pos), "x")}
            if k == "add_price":
                pl, ph = sorted([self.price_of(op[1]), self.price_of(op[2])])
                pos, bu, qu, L = m.add_liquidity(pl, ph, Decimal(op[4]), Decimal(op[3]))
                self.keys.append(pos)
                return "ok", {"base_used": (bu, "b"), "quote_used": (qu, "q"), "liquidity": (L, "L"), "range": (self.rng_a(pos), "x")}
            if k == "add_value":
                lo, hi = self.rng(op[1], op[2])
                pos, bu, qu, L = m.add_liquidity_by_value(lo, hi, Decimal(op[3]) if op[3] else None)
                self.keys.append(pos)
                return "ok", {"base_used": (bu, "be"), "quote_used": (qu, "qe"), "liquidity": (L, "Le"), "range": (self.rng_a(pos), "x")}
            if k in ("remove", "collect", "est_liq", "status"):
                live = [p for p in self.keys if p in m.positions]
                if not live:
                    return "ok", {}
                pos = live[op[1] % len(live)]
                if k == "remove":
                    liq = None if op[2] == "1" else int(m.positions[pos].liquidity * Decimal(op[2]))
                    b, q = m.remove_liquidity(pos, liq, collect=(op[1] % 2 == 0))
                    return "ok", {"base_get": (b, "b"), "quote_get": (q, "q")}
                if k == "collect":
                    if op[2] == "1":
                        b, q = m.collect_fee(pos)
                    else:
                        # capped collect: caps stated in base / quote terms (a fraction of what is pending, or more than it)
                        p = m.positions[pos]
                        pb, pq = self.bq(p.pending_amount0, p.pending_amount1)
                        cb = pb * Decimal(op[2])
                        cq = pq * (Decimal("2") if op[3] == "100" else Decimal("0.3") if op[3] == "1" else Decimal(op[2]))
                        c0, c1 = self.bq(cb, cq)  # the base/quote <-> token0/token1 mapping is an involution
                        b, q = m.collect_fee(pos, c0, c1)
                        self.capped = True
                    return "ok", {"base_get": (b, "b"), "quote_get": (q, "q")}
                if k == "est_liq":
                    L, a0, a1 = m.estimate_liquidity(Decimal(op[3]), pos)
                    b, q = self.bq(a0, a1)
                    return "ok", {"liquidity": (L, "Le"), "base": (b, "be"), "quote": (q, "qe"), "_pos": (self.rng_a(pos), "x")}
                s = m.get_position_status(pos)
                lb, lq = self.bq(s.liquidity_amount0, s.liquidity_amount1)
                pb, pq = self.bq(s.pending_amount0, s.pending_amount1)
                return "ok", {"liq_base": (lb, "b"), "liq_quote": (lq, "q"), "pend_base": (pb, "b"), "pend_quote": (pq, "q"), "value": (s.value, "q"), "liquidity_value": (s.liquidity_value, "q"), "pending_value": (s.pending_value, "q"), "liquidity": (s.liquidity, "L"), "H": (s.H, "r"), "L": (s.L, "r"), "P": (s.P, "r")}
            if k == "buy":
                f, qpaid, bgot = m.buy(Decimal(op[1]))
                return "ok", {"fee_quote": (f, "q"), "quote_paid": (qpaid, "q"), "base_got": (bgot, "b")}
            if k == "sell":
                f, bsold, qgot = m.sell(Decimal(op[1]))
                return "ok", {"fee_base": (f, "b"), "base_sold": (bsold, "b"), "quote_got": (qgot, "q")}
            if k == "swap":
                frm, to = (self.base, self.quote) if op[1] == "base" else (self.quote, self.base)
                f, got = m.swap(Decimal(op[2]), frm, to)
                return "ok", {"fee": (f, "b" if op[1] == "base" else "q"), "got": (got, "q" if op[1] == "base" else "b")}
            if k == "rebalance":
                m.even_rebalance()
                return "ok", {}
            if k == "est_amount":
                lo, hi = self.rng(op[1], op[2])
                a0, a1 = m.estimate_amount(Decimal(op[3]), lo, hi)
                b, q = self.bq(a0, a1)
                return "ok", {"base": (b, "be"), "quote": (q, "qe")}
            if k == "bar":
                self.refresh()  # what the loop does after writes: own liquidity enters the active liquidity
                m.update()
                self.set_bar(op[1], int(op[2]), int(op[3]))
                return "ok", {}
            if k == "rbar":
                self.refresh()
                m.update()
                self.set_rbar(op[1], op[2])
                return "ok", {}
            raise ValueError(k)
        except Exception as e:  # noqa: an exception in one orientation must be matched in the other
            return "err", type(e).__name__

    def rng_a(self, pos):
        return (-pos.upper_tick, -pos.lower_tick) if self.mirror else (pos.lower_tick, pos.upper_tick)

    def price_of(self, tick_a):
        return self.m.tick_to_price(self.t(tick_a))

    def balance(self):
        b = self.m.get_market_balance()
        return {"net_value": (b.net_value, "q"), "base_uncollected": (b.base_uncollected, "b"), "quote_uncollected": (b.quote_uncollected, "q"), "base_in_position": (b.base_in_position, "b"), "quote_in_position": (b.quote_in_position, "q"), "positions": (b.position_count, "n")}


def body(case, ctx: Ctx):
    A, B = Side(case, False), Side(case, True)
    sp = SP[case["fee"]]
    for s in (A, B):
        s.set_bar(case["tick"], 0, 0)
    labels = set()
    created, helper = 0, 0
    price = A.m.market_status.data.price
    wealth_q = Decimal(case["quote"]) + Decimal(case["base"]) * price
    cur_tick = case["tick"]

    def compare(name, ra, rb, opdesc, est_tol=Decimal("1e-3")):
        S = {"b": wealth_q / price, "q": wealth_q}
        for key in set(ra) | set(rb):
            if key.startswith("_"):
                continue
            if key not in ra or key not in rb:
                ctx.fail(f"{name}.shape", f"{opdesc}: result fields differ: {sorted(ra)} vs {sorted(rb)}", case)
                continue
            (va, u), (vb, _) = ra[key], rb[key]
            if u in ("x", "n"):
                ctx.check(va == vb, f"{name}.{key}", lambda: f"{opdesc}: {key} {va} (token0 = quote) vs {vb} (mirror)", case)
                continue
            va, vb = Decimal(va), Decimal(vb)
            if u in ("b", "q"):
                tol = Decimal("1e-12") * max(abs(va), abs(vb), S[u])
            elif u in ("be", "qe"):
                tol = est_tol * max(abs(va), abs(vb)) + Decimal("1e-9") * S[u[0]]
            elif u == "r":
                tol = Decimal("1e-12") * max(abs(va), abs(vb))
            elif u == "L":
                tol = Decimal("1e-9") * max(abs(va), abs(vb)) + 4
            else:  # "Le"
                tol = 2 * est_tol * max(abs(va), abs(vb)) + 4
            ctx.check(abs(va - vb) <= tol, f"{name}.{key}", lambda: f"{opdesc}: {key} = {va} with token0 as quote vs {vb} in the mirrored pool (tolerance {tol:.3e})", case)

    for op in case["ops"]:
        k = op[0]
        # estimate-based helpers work on the floor tick of the price; the mirror image of that tick is one tick away, which
        # moves the estimated split by about 1 / (distance to the nearest bound in ticks): compared at max(0.1%, 1.5 / distance)
        est_tol = Decimal("1e-3")
        pt = A.price_tick_a  # the helpers read the status price, which is the previous bar's close
        if k in ("add_value", "est_amount"):
            dist = min(abs(pt - op[1]), abs(pt - op[2]))
            if dist < 2 * sp:
                labels.add("skipped.near_bound")
                continue
            if op[1] <= pt < op[2]:
                est_tol = max(est_tol, Decimal("1.5") / dist) if k == "est_amount" else max(Decimal("0.01"), Decimal("20") / dist)
        if k == "est_liq":
            live = [p for p in A.keys if p in A.m.positions]
            if live:
                p = live[op[1] % len(live)]
                dist = min(abs(pt - p.lower_tick), abs(pt - p.upper_tick))
                if dist < 2 * sp:
                    labels.add("skipped.near_bound")
                    continue
                if p.lower_tick <= pt < p.upper_tick:
                    est_tol = max(est_tol, Decimal("1.5") / dist)
                if not (p.lower_tick <= pt < p.upper_tick):
                    labels.add("est_liq.out_of_range")
        price_now = A.m.market_status.data.price
        sa, ra = A.run(op)
        sb, rb = B.run(op)
        labels.add(f"op.{k}")
        desc = f"{op} at price tick {pt}, close tick {cur_tick}"
        if sa != sb or (sa == "err" and ra != rb):
            ctx.fail(f"{k}.outcome", f"{desc}: token0-as-quote gives {sa} {ra if sa == 'err' else ''}, mirror gives {sb} {rb if sb == 'err' else ''}", case)
            break
        if sa == "ok" and k == "est_liq" and ra and any(0 < v[0] * 10**d < 10**6 for v, d in ((ra["base"], case["db"]), (ra["quote"], case["dq"]), (rb["base"], case["db"]), (rb["quote"], case["dq"]))):
            labels.add("dust.skipped")  # a few wei of a token: the integer liquidity is decided by truncation
            continue
        if sa == "ok":
            compare(k, ra, rb, desc, est_tol)
            if k in ("add_tick", "add_price", "add_value") and ra:
                created += 1
                lo, hi = ra["range"][0]
                ref_t = {"lower": op[1], "upper": op[2], "inside": (op[1] + op[2]) // 2 + 1, "t1": 1, "tm1": -1}.get(op[5]) if k == "add_tick" and op[5] else A.price_tick_a
                labels.add("region.below" if ref_t < lo else ("region.above" if ref_t >= hi else "region.inside"))
                if k == "add_tick" and op[5] in ("lower", "upper"):
                    labels.add("at_bound")
            if k in ("add_price", "add_value", "est_amount", "est_liq", "status", "buy", "sell", "rebalance", "remove", "collect"):
                helper += 1
        if k == "rbar":
            cur_tick = op[2][-1][0]
        if k == "bar":
            for p in A.keys:
                if p in A.m.positions and (min(cur_tick, op[1]) < p.lower_tick <= max(cur_tick, op[1]) or min(cur_tick, op[1]) < p.upper_tick <= max(cur_tick, op[1])):
                    labels.add("fee.crossing")
            cur_tick = op[1]
        if k == "add_value":
            # an estimate-based operation: which token is left over depends on the sign of the estimate's error, so the two
            # accounts are compared by value and the program ends here (also when the helper's final mint was rejected in
            # both orientations: its preparatory swap - sized by the estimate - has happened by then)
            wa, wb = A.wallet(), B.wallet()
            va_, vb_ = wa[0] * price_now + wa[1], wb[0] * price_now + wb[1]
            ctx.check(abs(va_ - vb_) <= est_tol * wealth_q, "add_value.wallet_value", lambda: f"after {desc}: wallet worth {va_} with token0 as quote vs {vb_} in the mirror", case)
            na, nb = A.m.get_market_balance().net_value, B.m.get_market_balance().net_value
            ctx.check(abs(na - nb) <= est_tol * wealth_q, "add_value.net_value", lambda: f"after {desc}: positions worth {na} with token0 as quote vs {nb} in the mirror", case)
            break
        # after every step: wallets and market balance agree
        wa, wb = A.wallet(), B.wallet()
        compare("wallet", {"base": (wa[0], "b"), "quote": (wa[1], "q")}, {"base": (wb[0], "b"), "quote": (wb[1], "q")}, f"after {desc}")
        ba = ctx.guarded("balance.A", case, A.balance)
        bb = ctx.guarded("balance.B", case, B.balance)
        if ba is not None and bb is not None:
            compare("balance", ba, bb, f"after {desc}")
    ctx.case(case, created >= 1 and helper >= 1, sorted(labels))


def shards(tier, seed):
    n = 1500 if tier == "quick" else 30000
    return [{"sub": "mirror", "idx": i, "n": n, "seed": derive_seed(seed, PROPERTY, "mirror", i)} for i in range(16)]


def run_shard(spec):
    ctx = Ctx(PROPERTY, spec["sub"])
    v = run_given(ctx, st_case(), body, spec["n"], spec["seed"])
    return ctx.result(v)


def replay(rec):
    return replay_body(PROPERTY, body, rec["case"], rec["sub"])
