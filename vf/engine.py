"""Hypothesis glue shared by all checks.

A check module (vf/checks/cXX.py) exposes

    PROPERTY   = "C06"
    RULE       = "how cases are generated and what makes one non-trivial"
    ASSUMPTIONS = [...]
    MIN_NONTRIVIAL = {"quick": n, "thorough": n}          # vacuity floor (exit 2 below it)
    REQUIRED_LABELS = [...]                                # labels that must be reached (exit 2 otherwise)
    def shards(tier, seed) -> list[dict]                   # picklable shard specs
    def run_shard(spec) -> dict                            # result of Ctx.result()
    def replay(case) -> list[str]                          # messages of violations, [] if it holds

Every random choice is drawn from Hypothesis; every shard is a pure function of (code, VERIF_SEED, shard index).
"""
from __future__ import annotations

import hashlib
import json
import os
import traceback
from collections import Counter
from decimal import Decimal
from fractions import Fraction

import hypothesis
from hypothesis import HealthCheck, Phase, given, settings


class Violation(Exception):
    """Oracle disagreement (never a harness problem)."""

    def __init__(self, signature: str, message: str, case=None):
        super().__init__(f"{signature}: {message}")
        self.signature = signature
        self.message = message
        self.case = case


class HarnessError(Exception):
    pass


def plain(x):
    """Convert to JSON-able plain data (Decimal/Fraction -> str)."""
    import datetime as _dt

    if isinstance(x, (str, int, bool)) or x is None:
        return x
    if isinstance(x, float):
        return x if x == x and x not in (float("inf"), float("-inf")) else repr(x)
    if isinstance(x, Decimal):
        return str(x)
    if isinstance(x, Fraction):
        return f"{x.numerator}/{x.denominator}"
    if isinstance(x, dict):
        return {str(k): plain(v) for k, v in x.items()}
    if isinstance(x, (list, tuple, set, frozenset)):
        return [plain(v) for v in x]
    if isinstance(x, (_dt.datetime, _dt.date, _dt.timedelta)):
        return str(x)
    try:
        import numpy as np

        if isinstance(x, np.integer):
            return int(x)
        if isinstance(x, np.floating):
            return float(x)
    except Exception:
        pass
    return repr(x)


def case_hash(case) -> str:
    return hashlib.blake2b(json.dumps(plain(case), sort_keys=True).encode(), digest_size=8).hexdigest()


def derive_seed(seed: int, prop: str, name: str, idx: int) -> int:
    h = hashlib.blake2b(f"{seed}|{prop}|{name}|{idx}".encode(), digest_size=8).digest()
    return int.from_bytes(h, "big") % (2**63)


_KNOWN = None


def known_findings():
    global _KNOWN
    if _KNOWN is None:
        path = os.path.join(os.path.dirname(os.path.dirname(os.path.abspath(__file__))), "known_findings.json")
        with open(path) as f:
            data = json.load(f)
        _KNOWN = [e for e in data.get("findings", []) if e.get("status") == "known"]
    return _KNOWN


class Ctx:
    """Per-shard collector: counts, labels, samples, known-finding hits, last failing case."""

    MAX_SAMPLES = 3

    def __init__(self, prop: str, sub: str = ""):
        self.prop = prop
        self.sub = sub
        self.evals = 0
        self.nontrivial = set()
        self.labels = Counter()
        self.samples = []
        self.known_hits = Counter()
        self.last_fail = None
        self.replaying = False
        self.replay_msgs = []
        self._known = {e["signature"]: e for e in known_findings() if e["property"] == prop}

    # -- bookkeeping -------------------------------------------------------
    def case(self, case, nontrivial: bool, labels=(), key=None):
        self.evals += 1
        for l in labels:
            self.labels[l] += 1
        if nontrivial:
            h = case_hash(key if key is not None else case)
            if h not in self.nontrivial:
                self.nontrivial.add(h)
                if len(self.samples) < self.MAX_SAMPLES:
                    self.samples.append(plain(case))

    def label(self, *names):
        for n in names:
            self.labels[n] += 1

    def count(self, n=1):
        self.evals += n

    # -- verdicts ----------------------------------------------------------
    def fail(self, signature: str, message: str, case):
        """Report an oracle disagreement. Known findings are counted and the search continues."""
        if signature in self._known:
            self.known_hits[signature] += 1
            return
        self.last_fail = {"signature": signature, "message": message, "case": plain(case), "sub": self.sub}
        raise Violation(signature, message, case)

    def check(self, cond: bool, signature: str, message, case):
        if not cond:
            self.fail(signature, message() if callable(message) else message, case)

    def guarded(self, signature: str, case, fn, *a, **kw):
        """Call code under test whose failure on sound input is itself a violation."""
        try:
            return fn(*a, **kw)
        except Violation:
            raise
        except Exception as e:  # noqa
            tb = traceback.extract_tb(e.__traceback__)
            where = ""
            for fr in reversed(tb):
                if "/demeter/" in fr.filename:
                    where = f"{os.path.basename(fr.filename)}:{fr.name}"
                    break
            self.fail(f"{signature}.exception.{type(e).__name__}", f"{type(e).__name__}: {e} at {where}", case)
            return None

    def result(self, violation=None):
        return {
            "sub": self.sub,
            "evals": self.evals,
            "nontrivial": sorted(self.nontrivial),
            "labels": dict(self.labels),
            "samples": self.samples,
            "known_hits": dict(self.known_hits),
            "violation": violation,
        }


def run_given(ctx: Ctx, strategy, body, max_examples: int, seed: int, shrink: bool = True):
    """Run body(case, ctx) over `strategy`. Returns a violation dict or None.

    body must call ctx.case(...) itself; it reports disagreements through ctx.fail / ctx.check.
    Any exception other than Violation is a harness error and propagates.
    """
    phases = [Phase.generate, Phase.target] + ([Phase.shrink] if shrink else [])
    # shrinking budget (affects only how small the replay is, never the verdict)
    import hypothesis.internal.conjecture.engine as _eng

    _eng.MAX_SHRINKING_SECONDS = int(os.environ.get("VF_SHRINK_SECONDS", "45"))

    @hypothesis.seed(seed)
    @settings(
        max_examples=max_examples,
        database=None,
        deadline=None,
        derandomize=False,
        report_multiple_bugs=False,
        suppress_health_check=list(HealthCheck),
        phases=phases,
        print_blob=False,
    )
    @given(strategy)
    def test(case):
        body(case, ctx)

    try:
        test()
    except Violation as v:
        lf = ctx.last_fail or {"signature": v.signature, "message": v.message, "case": plain(v.case), "sub": ctx.sub}
        return lf
    except BaseException as e:  # noqa
        # A disagreement that does not reproduce when Hypothesis re-executes the case (the code under test leaked
        # process-global state: a class-level counter, the decimal context ...) surfaces as a Flaky error / exception
        # group wrapping the Violation. The disagreement was observed against the real code: report it.
        if ctx.last_fail is not None and _wraps_violation(e):
            lf = dict(ctx.last_fail)
            lf["message"] = lf["message"] + " [not reproducible on immediate re-execution: process-global state involved]"
            return lf
        raise
    return None


def _wraps_violation(e, depth=0):
    if isinstance(e, Violation):
        return True
    if depth > 6:
        return False
    for sub in getattr(e, "exceptions", ()) or ():
        if _wraps_violation(sub, depth + 1):
            return True
    for sub in (e.__cause__, e.__context__):
        if sub is not None and _wraps_violation(sub, depth + 1):
            return True
    import hypothesis.errors as he

    return isinstance(e, getattr(he, "Flaky", ())) or isinstance(e, getattr(he, "FlakyFailure", ()))


def run_list(ctx: Ctx, cases, body):
    """Enumerated (non-random) cases through the same body. Returns first violation dict or None."""
    for c in cases:
        try:
            body(c, ctx)
        except Violation:
            return ctx.last_fail
    return None


def replay_body(prop: str, body, case, sub=""):
    ctx = Ctx(prop, sub)
    ctx.replaying = True
    try:
        body(case, ctx)
    except Violation as v:
        return [f"{v.signature}: {v.message}"]
    return []
