"""C16 — options settle once, at the first open bar at or after expiry, with intrinsic payoff net of the delivery fee."""
import copy
from decimal import Decimal

import pandas as pd
from hypothesis import strategies as st

from vf import deribit as dw
from vf import world
from vf.deribit import CFG, dd, rhu, settle
from vf.engine import Ctx, derive_seed, replay_body, run_given

PROPERTY = "C16"
RULE = (
    "real Actuator.run over 2-6 hourly option snapshots, alone (hourly bars) or next to a minutely Uniswap co-market "
    "(minute bars starting anywhere in the hour), ETH and BTC configurations; 1-4 calls / puts bought on the first open "
    "bar, some partly sold later; strikes a few ticks around a generated underlying path (above, below, exactly equal at "
    "expiry); expiries on the hourly grid, between grid points, before the first bar and after the last; the expiring "
    "instrument still listed in the expiry-hour snapshot or already delisted; trade attempts on closed (non-hour) and "
    "open bars. The per-bar log (positions, cash, records) is compared with the settlement rule. Non-trivial = a held "
    "position whose expiry falls strictly inside the simulated range."
)
ASSUMPTIONS = [
    "every hour of the simulated range has a snapshot (a missing hourly snapshot makes 'open bar' ambiguous: not generated)",
    "the token price series equals the snapshots' underlying price, as the market's own get_price_from_data produces it",
    "for an instrument that is delisted at settlement the option value is unknown to the market; the fee is then only required to lie in [0, 0.015% x contracts]",
    "payouts within 1e-9 of a rounding tie of the fee step may round either way (the code divides in floating point)",
]
MIN_NONTRIVIAL = {"quick": 600, "thorough": 12000}
REQUIRED_LABELS = ["settled.itm.paid", "settled.otm", "settled.delisted", "expiry.on_grid", "expiry.between", "expiry.before_start", "expiry.after_end", "co_market", "alone", "closed_bar.trade_rejected", "partial_sell", "atm.equal", "cfg.BTC", "bought.later_bar"]


@st.composite
def st_case(draw):
    cfg = draw(st.sampled_from(["ETH", "ETH", "BTC"]))
    nh = draw(st.integers(2, 6))
    co = draw(st.booleans())
    start_min = draw(st.integers(0, 59)) if co else 0
    base = draw(st.integers(1500, 3500)) if cfg == "ETH" else draw(st.integers(30000, 70000))
    under = []
    whole = draw(st.booleans())  # whole-number underlying prices make "strike exactly equal" reachable (strikes are integers)
    u = base * 100
    for _ in range(nh + 1):
        under.append((u // 100 * 100 if whole else u) / 100)
        u += draw(st.integers(-3000, 3000)) if cfg == "ETH" else draw(st.integers(-60000, 60000))
        u = max(u, base * 50)
    instruments = []
    for i in range(draw(st.integers(1, 4))):
        kind = draw(st.sampled_from(["CALL", "PUT"]))
        exp_class = draw(st.sampled_from(["on_grid", "on_grid", "between", "before_start", "after_end"]))
        if exp_class == "on_grid":
            e = draw(st.integers(1, nh - 1)) if nh > 1 else 1
            exp_min = e * 60
        elif exp_class == "between":
            exp_min = draw(st.integers(0, nh - 2)) * 60 + draw(st.integers(1, 59))
        elif exp_class == "before_start":
            exp_min = -draw(st.integers(0, 3)) * 60
        else:
            exp_min = nh * 60 + draw(st.integers(0, 2)) * 60 + draw(st.sampled_from([0, 30]))
        settle_h = -(-exp_min // 60)  # first hour at or after expiry
        u_at = under[min(max(settle_h, 0), nh)]
        # strike around the underlying at settlement: equal, a cent away, far
        rel = draw(st.sampled_from(["equal", "cent_above", "cent_below", "above", "below", "far_above", "far_below"]))
        if rel == "equal":
            strike = int(round(u_at))
        elif rel == "cent_above":
            strike = int(u_at) + 1
        elif rel == "cent_below":
            strike = int(u_at) if int(u_at) < u_at else int(u_at) - 1
        else:
            d = draw(st.integers(1, 40)) * (5 if cfg == "ETH" else 100) * (10 if rel.startswith("far") else 1)
            strike = int(u_at) + d if "above" in rel else max(1, int(u_at) - d)
        instruments.append(
            {
                "type": kind, "strike": strike, "exp_min": exp_min, "exp_class": exp_class, "rel": rel,
                "listed_at_expiry": draw(st.sampled_from([True, True, False])),
                "amount": draw(st.sampled_from(["1", "2", "7", "40"] if cfg == "ETH" else ["0.1", "0.3", "2", "12.5"])),
                "mark_ticks": [draw(st.integers(0, 300)) for _ in range(nh + 1)],
                "buy_h": draw(st.sampled_from([0, 0, 1, 2])),  # hour of purchase: holdings with different expiries are built up over several bars
                "sell": draw(st.sampled_from([None, None, ["1", draw(st.integers(1, max(1, nh - 1)))]])),
            }
        )
    probes = [[draw(st.integers(0, nh * 60 - 1)), draw(st.integers(0, len(instruments) - 1)), draw(st.sampled_from(["buy", "sell"]))] for _ in range(draw(st.integers(0, 4)))]
    return {"cfg": cfg, "hours": nh, "co": co, "start_min": start_min, "under": under, "instruments": instruments, "probes": probes}


def build(case):
    """frames + names for a case; hour h of the option data is BASE + h hours."""
    cfg = case["cfg"]
    tick = Decimal("0.0005") if cfg == "ETH" else Decimal("0.0001")
    nh = case["hours"]
    names = []
    hours = {}
    for i, ins in enumerate(case["instruments"]):
        names.append(f"{cfg}-X{i}-{ins['strike']}-{'C' if ins['type'] == 'CALL' else 'P'}")
    for h in range(nh + 1):
        lst = []
        for i, ins in enumerate(case["instruments"]):
            settle_h = -(-ins["exp_min"] // 60)
            if h > max(settle_h, 0):
                continue  # gone after settlement
            if h == settle_h and h > 0 and not ins["listed_at_expiry"]:
                continue  # delisted in the expiry-hour snapshot
            mark = float(Decimal(ins["mark_ticks"][h]) * tick)
            big = 100000 if cfg == "ETH" else 100000.0
            lst.append(
                {"name": names[i], "type": ins["type"], "strike": ins["strike"], "expiry_h": 0, "mark": mark, "underlying": case["under"][h],
                 "asks": [[float(Decimal(ins["mark_ticks"][h] + 1) * tick), big]], "bids": [[float(Decimal(max(ins["mark_ticks"][h], 1)) * tick), big]], "state": "open"}
            )
        hours[h] = lst
    # an always-listed far-dated filler keeps every hourly snapshot non-empty
    for h in range(nh + 1):
        hours[h].append({"name": f"{cfg}-FILLER-1-C", "type": "CALL", "strike": 1, "expiry_h": 0, "mark": 0.5, "underlying": case["under"][h], "asks": [[0.6, 10]], "bids": [[0.4, 10]], "state": "open"})
    df = dw.frame(hours)
    # expiry_time per instrument (minutes relative to BASE), filler never expires in range
    exp = {names[i]: dw.BASE + pd.Timedelta(minutes=ins["exp_min"]) for i, ins in enumerate(case["instruments"])}
    exp[f"{cfg}-FILLER-1-C"] = dw.BASE + pd.Timedelta(days=30)
    df["expiry_time"] = [exp[n] for n in df.index.get_level_values(1)]
    df["t"] = df["expiry_time"] - df.index.get_level_values(0)
    return df, names


def body(case, ctx: Ctx):
    from demeter import Actuator, MarketInfo, MarketTypeEnum, Strategy
    from demeter.deribit import DeribitOptionMarket
    from demeter.uniswap import UniLpMarket

    cfg = case["cfg"]
    fs = CFG[cfg]["fee_step"]
    nh = case["hours"]
    df, names = build(case)
    pristine = {k: (copy.deepcopy(v["asks"]), copy.deepcopy(v["bids"])) for k, v in df.iterrows()}
    tok = dw.token(cfg)
    a = Actuator()
    m = DeribitOptionMarket(MarketInfo("opt", MarketTypeEnum.deribit_option), tok, data=df)
    labels = {f"cfg.{cfg}", "co_market" if case["co"] else "alone"}
    n_min = nh * 60 + 1 - case["start_min"]
    if case["co"]:
        pool = world.uni_pool(6, 18, True)
        um = UniLpMarket(MarketInfo("uni"), pool)
        um.data = world.uni_frame(pool, case["start_min"], [200000] * n_min)
        a.broker.add_market(um)  # first market = default: its minute grid drives the loop
        a.broker.add_market(m)
        idx = um.data.index
        a.broker.set_balance(pool.token0, 1000)
        a.broker.set_balance(pool.token1, 1)
        price, qt = um.get_price_from_data()
        price = price.copy()
    else:
        a.broker.add_market(m)
        idx = pd.date_range(dw.BASE, periods=nh * 60 + 60, freq="1min")
        price, qt = pd.DataFrame(index=idx), None
    price[tok.name] = [Decimal(str(case["under"][min((t - dw.BASE) // pd.Timedelta(hours=1), nh)])) for t in price.index]
    if qt is not None:
        a.set_price((price, qt))
    else:
        a.set_price(price)
    a.broker.set_balance(tok, 1000)
    amounts = [Decimal(i["amount"]) for i in case["instruments"]]
    log = []
    probes_out = []
    state = {"bought": False}

    def snap_state():
        return (m.balance, {k: (p.amount, p.buy_amount, p.sell_amount) for k, p in m.positions.items()}, a.broker.assets[tok].balance, copy.deepcopy({n: (list(r.asks), list(r.bids)) for n, r in m.market_status.data.iterrows()}))

    class S(Strategy):
        def on_bar(self, snap):
            ts = pd.Timestamp(snap.timestamp)
            minute = int((ts - dw.BASE) / pd.Timedelta(minutes=1))
            if m.is_open and not state["bought"]:
                state["bought"] = True
                state["h0"] = minute // 60
                m.deposit(Decimal(900))
            if m.is_open and state["bought"]:
                for i, nme in enumerate(names):
                    if i not in state.setdefault("done", set()) and minute // 60 - state["h0"] >= case["instruments"][i].get("buy_h", 0):
                        state["done"].add(i)
                        if nme in m.market_status.data.index:
                            try:
                                m.buy(nme, amounts[i])
                                if minute // 60 > state["h0"]:
                                    labels.add("bought.later_bar")
                            except Exception:  # noqa: e.g. no longer tradable
                                pass
            for i, ins in enumerate(case["instruments"]):
                if ins["sell"] and m.is_open and minute == ins["sell"][1] * 60 and names[i] in m.positions and names[i] in m.market_status.data.index:
                    try:
                        m.sell(names[i], Decimal(ins["sell"][0]) * CFG[cfg]["step"])
                        labels.add("partial_sell")
                    except Exception:  # noqa
                        pass
            for pm, pi, kind in case["probes"]:
                if pm == minute:
                    before = snap_state()
                    nact = len(a.actions)
                    try:
                        getattr(m, kind)(names[pi], CFG[cfg]["step"])
                        out = "ok"
                    except Exception as e:  # noqa
                        out = type(e).__name__
                    probes_out.append((ts, m.is_open, kind, out, before == snap_state() and nact == len(a.actions)))

        def after_bar(self, snap):
            log.append((pd.Timestamp(snap.timestamp), m.is_open, m.balance, {k: p.amount for k, p in m.positions.items()}, len(a.actions)))

    a.strategy = S()
    ok = ctx.guarded("loop", case, lambda: (world.quiet_run(a), True)[1])
    if ok is None:
        ctx.case(case, False, sorted(labels))
        return
    # trades on closed bars raise and change nothing
    for ts, is_open, kind, out, same in probes_out:
        if not is_open:
            labels.add("closed_bar.trade_rejected")
            ctx.check(out != "ok", "closed_bar.trade_accepted", lambda: f"{kind} at {ts} accepted although the hourly market is closed", case)
            ctx.check(same, "closed_bar.state_changed", lambda: f"rejected {kind} at {ts} changed state", case)
    acts_by_bar = {}
    for act in a.actions:
        acts_by_bar.setdefault(pd.Timestamp(act.timestamp), []).append(act)
    nontrivial = False
    bars = [l[0] for l in log]
    open_bars = [l[0] for l in log if l[1]]
    first_open = open_bars[0] if open_bars else None
    for i, ins in enumerate(case["instruments"]):
        nme = names[i]
        E = dw.BASE + pd.Timedelta(minutes=ins["exp_min"])
        labels.add(f"expiry.{ins['exp_class']}")
        held_bars = [l[0] for l in log if nme in l[3]]
        was_bought = any(type(x).__name__ == "BuyAction" and x.instrument_name == nme for x in a.actions)
        if not was_bought:
            labels.add("not_bought")
            continue
        # the settlement bar: first open bar at or after expiry (and not before the purchase)
        first_open = min(pd.Timestamp(x.timestamp) for x in a.actions if type(x).__name__ == "BuyAction" and x.instrument_name == nme)
        cand = [b for b in open_bars if b >= E and b >= first_open]
        sbar = cand[0] if cand else None
        delivers = [x for x in a.actions if type(x).__name__ == "DeliverAction" and x.instrument_name == nme]
        expires = [x for x in a.actions if type(x).__name__ == "ExpiredAction" and x.instrument_name == nme]
        if sbar is None and sum((x.amount for x in a.actions if type(x).__name__ == "SellAction" and x.instrument_name == nme), Decimal(0)) >= sum((x.amount for x in a.actions if type(x).__name__ == "BuyAction" and x.instrument_name == nme), Decimal(0)):
            labels.add("sold_out_before_settlement")
            ctx.check(not delivers and not expires, "settled.sold_out", lambda: f"{nme} was sold completely but still settled", case)
            continue
        if sbar is None:
            ctx.check(not delivers and not expires, "settled.never_due", lambda: f"{nme} (expiry {E}) settled although no open bar at or after expiry was simulated", case)
            ctx.check(all(nme in l[3] for l in log if l[0] >= first_open), "removed.never_due", lambda: f"{nme} left the book of positions before its expiry {E}", case)
            continue
        if bars[0] < E <= bars[-1]:
            nontrivial = True
        sold = sum((x.amount for x in a.actions if type(x).__name__ == "SellAction" and x.instrument_name == nme and pd.Timestamp(x.timestamp) <= sbar), Decimal(0))
        bought = sum((x.amount for x in a.actions if type(x).__name__ == "BuyAction" and x.instrument_name == nme and pd.Timestamp(x.timestamp) <= sbar), Decimal(0))
        if sold >= bought:
            labels.add("sold_out_before_settlement")
            ctx.check(not delivers and not expires, "settled.sold_out", lambda: f"{nme} was sold completely by {sbar} but still settled", case)
            continue
        # never earlier, exactly once, at sbar
        early = [b for b in held_bars if b >= sbar]
        ctx.check(not early, "late.still_held", lambda: f"{nme} (expiry {E}) still held after bar {early[:2]}; should be removed at {sbar}", case)
        # (a position may be sold out completely and bought again before its expiry: held = what the records add up to)
        def held_after(bar):
            tr = [(type(x).__name__, x.amount) for x in a.actions if getattr(x, "instrument_name", None) == nme and pd.Timestamp(x.timestamp) <= bar and type(x).__name__ in ("BuyAction", "SellAction")]
            return sum((amt if k == "BuyAction" else -amt for k, amt in tr), Decimal(0))

        before_ok = all((nme in l[3]) == (held_after(l[0]) > 0) for l in log if first_open <= l[0] < sbar)
        ctx.check(before_ok, "early.removed", lambda: f"{nme} (expiry {E}) removed before its settlement bar {sbar}", case)
        ctx.check(len(expires) == 1 and pd.Timestamp(expires[0].timestamp) == sbar, "expired.record", lambda: f"{nme}: ExpiredAction records at {[str(x.timestamp) for x in expires]}, expected exactly one at {sbar}", case)
        ctx.check(all(pd.Timestamp(x.timestamp) == sbar for x in delivers) and len(delivers) <= 1, "deliver.record", lambda: f"{nme}: DeliverAction records at {[str(x.timestamp) for x in delivers]}, expected at most one at {sbar}", case)
        # amounts
        h = int((sbar - dw.BASE) / pd.Timedelta(hours=1))
        held_amt = None
        for l in log:
            if l[0] < sbar and nme in l[3]:
                held_amt = l[3][nme]
        if held_amt is None:  # bought and settled within the same bar
            held_amt = amounts[i]
        held_amt = bought - sold
        listed = (sbar, nme) in df.index
        U = case["under"][h]
        mark = float(df.loc[(sbar, nme)].mark_price) if listed else 0.0
        exp = settle(cfg, ins["type"], ins["strike"], held_amt, U, mark)
        if not listed:
            labels.add("settled.delisted")
        if dd(ins["strike"]) == dd(U):
            labels.add("atm.equal")
        # cash movement of the settlement bar attributable to this instrument = its DeliverAction
        paid = delivers[0].income_amount if delivers else Decimal(0)
        if exp is None:
            labels.add("settled.otm")
            ctx.check(not delivers, "payout.unexpected", lambda: f"{nme} {ins['type']} strike {ins['strike']} underlying {U}: paid {paid} although out of the money / not covering the fee", case)
        else:
            pay, fee = exp
            labels.add("settled.itm.paid")
            with_tie = abs((Decimal(held_amt) * abs(dd(U) - dd(ins["strike"])) / dd(U)) / fs % 1 - Decimal("0.5")) < Decimal("1e-6")
            tol = fs if with_tie else Decimal(0)
            if pay - fee <= fs and with_tie:
                pass
            else:
                ctx.check(len(delivers) == 1, "payout.missing", lambda: f"{nme} {ins['type']} strike {ins['strike']} underlying {U} x {held_amt}: nothing paid, expected {pay} - {fee}", case)
            if delivers:
                d = delivers[0]
                ctx.check(abs(d.deriver_amount - pay) <= tol, "payout.amount", lambda: f"{nme}: payoff {d.deriver_amount}, expected {held_amt} x |{U} - {ins['strike']}| / {U} = {pay}", case)
                if listed:
                    ctx.check(d.fee == fee, "payout.fee", lambda: f"{nme}: delivery fee {d.fee}, expected min(0.015% x {held_amt}, 12.5% x {held_amt} x {mark}) = {fee}", case)
                else:
                    ctx.check(0 <= d.fee <= rhu(Decimal("0.00015") * held_amt, fs), "payout.fee.delisted", lambda: f"{nme}: delivery fee {d.fee} outside [0, 0.015% x {held_amt}]", case)
                ctx.check(d.income_amount == d.deriver_amount - d.fee, "payout.record", lambda: f"{nme}: income {d.income_amount} != {d.deriver_amount} - {d.fee}", case)
    # cash changes only by recorded trades, deposits and deliveries
    prev_cash = None
    for ts, is_open, cash, pos, _ in log:
        delta = Decimal(0)
        for act in acts_by_bar.get(ts, []):
            nm = type(act).__name__
            if nm == "DeliverAction":
                delta += act.income_amount
            elif nm == "BuyAction":
                delta -= act.total_premium + act.fee
            elif nm == "SellAction":
                delta += act.total_premium - act.fee
            elif nm == "DepositAction":
                delta += act.amount
        if prev_cash is not None or delta != 0:
            ctx.check(cash == (prev_cash or Decimal(0)) + delta, "cash.unexplained", lambda: f"bar {ts}: option cash {prev_cash} -> {cash}, records explain {delta}", case)
        prev_cash = cash
    # the account history has exactly one row per bar that was run (also when the price feed is finer than the bar grid)
    hist = list(a.account_status_df.index)
    ctx.check(hist == bars, "history.index", lambda: f"{len(bars)} bars were run ({bars[:3]}..) but the account history has {len(hist)} rows ({hist[:4]}..)", case)
    now = {k: (v["asks"], v["bids"]) for k, v in m.data.iterrows()}
    ctx.check(now == pristine, "data.mutated", lambda: "the run changed the supplied option data", case)
    ctx.case(case, nontrivial, sorted(labels))


def shards(tier, seed):
    n = 90 if tier == "quick" else 1800
    return [{"sub": "settle", "idx": i, "n": n, "seed": derive_seed(seed, PROPERTY, "settle", i)} for i in range(16)]


def run_shard(spec):
    ctx = Ctx(PROPERTY, spec["sub"])
    v = run_given(ctx, st_case(), body, spec["n"], spec["seed"])
    return ctx.result(v)


def replay(rec):
    return replay_body(PROPERTY, body, rec["case"], rec["sub"])
