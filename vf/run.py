"""CLI: ./check <ID> [--tier quick|thorough] [--replay FILE] [--jobs N]

exit 0  property held on everything explored (KNOWN-FINDING lines may be printed)
exit 1  VIOLATION property=<id> replay=<path>
exit 2  harness error / vacuous run (never reported as a violation)
"""
from __future__ import annotations

import argparse
import importlib
import json
import multiprocessing as mp
import os
import sys
import time
import traceback
from collections import Counter

HERE = os.path.dirname(os.path.dirname(os.path.abspath(__file__)))


def _quiet():
    import logging
    import warnings

    warnings.filterwarnings("ignore")
    logging.disable(logging.CRITICAL)
    os.environ.setdefault("TQDM_DISABLE", "1")


def _assert_src():
    import demeter

    src = os.environ.get("VF_SRC", "/repo")
    got = os.path.dirname(os.path.dirname(os.path.abspath(demeter.__file__)))
    if os.path.realpath(got) != os.path.realpath(src):
        print(f"HARNESS-ERROR demeter imported from {got}, expected {src}")
        sys.exit(2)
    import decimal

    import demeter.uniswap.helper  # noqa: sets the global decimal precision

    global _PREC
    _PREC = decimal.getcontext().prec


_PREC = None


def _private_hypothesis_home():
    """Hypothesis keeps a cache of the constants it finds in local source files under its home directory and biases
    generation with them. The shard processes share the working directory, and the cache files are written non-atomically,
    so a shard could read a half-written file and generate other cases than the seed prescribes (observed: same seed,
    different cases under load). Every shard process therefore gets a home directory of its own."""
    from hypothesis.configuration import set_hypothesis_home_dir

    d = os.path.join(os.environ.get("VF_WORK", "."), f"hyp-{os.getpid()}")
    os.makedirs(d, exist_ok=True)
    set_hypothesis_home_dir(d)


def _cov_start():
    """Optional line coverage of the code under test (VF_COV=<abs dir>): sys.monitoring LINE events, each location
    disabled after its first hit, so the cost is negligible. Used by tools/covreport.py to find behaviour behind a
    property that no generated case reaches; not part of any verdict."""
    out = os.environ.get("VF_COV")
    if not out or not hasattr(sys, "monitoring"):
        return None
    root = os.path.join(os.path.realpath(os.environ.get("VF_SRC", "/repo")), "demeter") + os.sep
    hit = set()
    mon = sys.monitoring
    tool = mon.COVERAGE_ID
    try:
        mon.use_tool_id(tool, "vfcov")
    except ValueError:
        pass

    def on_line(code, line):
        fn = code.co_filename
        if fn.startswith(root):
            hit.add((fn[len(root):], line))
        return mon.DISABLE

    mon.register_callback(tool, mon.events.LINE, on_line)
    mon.set_events(tool, mon.events.LINE)
    mon.restart_events()
    return hit


def _cov_stop(hit, spec):
    if hit is None:
        return
    mon = sys.monitoring
    mon.set_events(mon.COVERAGE_ID, 0)
    out = os.environ["VF_COV"]
    os.makedirs(out, exist_ok=True)
    with open(os.path.join(out, f"{spec.get('sub', 'x')}-{spec.get('idx', 0)}-{os.getpid()}.json"), "w") as f:
        json.dump(sorted(hit), f)


def _worker(arg):
    modname, spec = arg
    _quiet()
    try:
        import decimal

        # demeter sets the decimal precision globally at import (main thread); pool workers may be forked from a
        # helper thread whose context is the default one, so restore what the code under test configured.
        if _PREC is not None:
            decimal.getcontext().prec = _PREC
        _private_hypothesis_home()
        mod = importlib.import_module(modname)
        t0 = time.time()
        cov = _cov_start()
        res = mod.run_shard(spec)
        _cov_stop(cov, spec)
        res["wall"] = time.time() - t0
        res["spec"] = {k: v for k, v in spec.items() if k in ("sub", "idx", "seed", "n")}
        if os.environ.get("VF_DUMP"):  # debugging aid: per-shard results, to compare two runs of the same seed
            os.makedirs(os.environ["VF_DUMP"], exist_ok=True)
            with open(os.path.join(os.environ["VF_DUMP"], f"{spec.get('sub')}-{spec.get('idx')}.json"), "w") as f:
                json.dump({"pid": os.getpid(), "evals": res["evals"], "nontrivial": res["nontrivial"], "labels": res["labels"]}, f)
        return res
    except BaseException:  # noqa
        return {"error": traceback.format_exc(), "spec": spec}


def main(argv=None):
    ap = argparse.ArgumentParser()
    ap.add_argument("prop")
    ap.add_argument("--tier", default=os.environ.get("VERIF_TIER", "quick"), choices=["quick", "thorough"])
    ap.add_argument("--replay")
    ap.add_argument("--jobs", type=int, default=int(os.environ.get("VF_JOBS", "16")))
    ap.add_argument("--scale", type=float, default=float(os.environ.get("VF_SCALE", "1")))
    args = ap.parse_args(argv)
    prop = args.prop.upper()
    seed = int(os.environ.get("VERIF_SEED", "1") or "1")
    _quiet()
    _assert_src()
    work = os.path.join(HERE, ".work", f"{prop}-{os.getpid()}")
    os.makedirs(work, exist_ok=True)
    os.environ["HOME"] = work
    os.environ["VF_WORK"] = work
    os.chdir(work)
    modname = f"vf.checks.{prop.lower()}"
    try:
        mod = importlib.import_module(modname)
    except Exception:
        traceback.print_exc()
        print(f"HARNESS-ERROR cannot import {modname}")
        return 2

    try:
        if args.replay:
            path = args.replay if os.path.isabs(args.replay) else os.path.join(HERE, args.replay)
            with open(path) as f:
                rec = json.load(f)
            msgs = mod.replay(rec)
            if msgs:
                for m in msgs:
                    print(f"REPLAY-FAIL {m}")
                print(f"VIOLATION property={prop} replay={path}")
                return 1
            print(f"REPLAY-OK property={prop} {path}")
            return 0
        return _run(mod, modname, prop, args, seed)
    finally:
        os.chdir(HERE)
        import shutil

        shutil.rmtree(work, ignore_errors=True)
        try:
            os.rmdir(os.path.join(HERE, ".work"))
        except OSError:
            pass


def _run(mod, modname, prop, args, seed):
    t0 = time.time()
    os.environ.setdefault("VF_SHRINK_SECONDS", "45" if args.tier == "quick" else "240")
    specs = mod.shards(args.tier, seed)
    for s in specs:
        s.setdefault("tier", args.tier)
        if args.scale != 1 and "n" in s:
            s["n"] = max(1, int(s["n"] * args.scale))
    jobs = max(1, min(args.jobs, len(specs)))
    ctx = mp.get_context("fork")
    if jobs == 1:
        results = [_worker((modname, s)) for s in specs]
    else:
        # one fresh process per shard: a shard is a pure function of (code, seed, shard index), whatever the number of
        # cores and however the shards are scheduled (a reused worker would start its next shard with other modules loaded)
        with ctx.Pool(jobs, maxtasksperchild=1) as pool:
            results = pool.map(_worker, [(modname, s) for s in specs], chunksize=1)

    errors = [r for r in results if "error" in r]
    if errors:
        for e in errors[:3]:
            print(f"HARNESS-ERROR shard {e['spec'].get('sub')}#{e['spec'].get('idx')}\n{e['error']}")
        return 2

    evals = sum(r["evals"] for r in results)
    nontrivial = set()
    labels = Counter()
    known_hits = Counter()
    samples = []
    per_sub = {}
    violations = {}
    for r in results:
        nontrivial.update(f"{r['sub']}:{h}" for h in r["nontrivial"])
        labels.update(r["labels"])
        known_hits.update(r["known_hits"])
        for s in r["samples"]:
            if sum(1 for x in samples if x["sub"] == r["sub"]) < 2:
                samples.append({"sub": r["sub"], "case": s})
        ps = per_sub.setdefault(r["sub"], {"evaluations": 0, "distinct_nontrivial": 0, "shards": 0, "wall_s": 0.0})
        ps["evaluations"] += r["evals"]
        ps["distinct_nontrivial"] += len(r["nontrivial"])
        ps["shards"] += 1
        ps["wall_s"] = round(ps["wall_s"] + r["wall"], 2)
        if r["violation"]:
            violations.setdefault(r["violation"]["signature"], r["violation"])
        if r.get("exhaustive") is not None:
            ps["exhaustive"] = bool(r["exhaustive"]) and ps.get("exhaustive", True)

    from vf.engine import known_findings

    listed = [e for e in known_findings() if e["property"] == prop]
    for e in listed:
        print(f"KNOWN-FINDING: property={prop} {e['signature']} -- {e['what']} (hits this run: {known_hits.get(e['signature'], 0)})")

    rc = 0
    replay_paths = []
    if violations:
        rdir = os.environ.get("VF_REPLAY_DIR") or os.path.join(HERE, "replays")
        os.makedirs(rdir, exist_ok=True)
        for sig, v in violations.items():
            from vf.engine import case_hash

            name = f"{prop}-{case_hash([sig, v['case']])}.json"
            path = os.path.join(rdir, name)
            with open(path, "w") as f:
                json.dump({"property": prop, "sub": v.get("sub", ""), "signature": sig, "message": v["message"], "case": v["case"], "seed": seed, "tier": args.tier}, f, indent=1)
            print(f"DETAIL {sig}: {v['message'][:600]}")
            print(f"VIOLATION property={prop} replay={path}")
            replay_paths.append(path)
        rc = 1

    wall = time.time() - t0
    floor = getattr(mod, "MIN_NONTRIVIAL", {}).get(args.tier, 2)
    missing = [l for l in getattr(mod, "REQUIRED_LABELS", []) if labels.get(l, 0) == 0]
    exhaustive = getattr(mod, "EXHAUSTIVE", {}).get(args.tier)
    evidence = {
        "property_id": prop,
        "tier": args.tier,
        "seed": seed,
        "level": "exploration",
        "coverage": {
            "evaluations": int(evals),
            "distinct_nontrivial": len(nontrivial),
            "rule": mod.RULE,
            "samples": samples[:12],
            "per_subcheck": per_sub,
            "labels": dict(sorted(labels.items())),
            "known_finding_hits": dict(known_hits),
            "shards": len(specs),
            "violation_signatures": sorted(violations),
        },
        "assumptions": list(getattr(mod, "ASSUMPTIONS", [])),
        "wall_s": round(wall, 2),
        "violations": len(violations),
    }
    if exhaustive:
        evidence["coverage"]["exhaustive_subdomains"] = exhaustive
    if not os.environ.get("VF_NO_EVIDENCE"):
        os.makedirs(os.path.join(HERE, "evidence"), exist_ok=True)
        with open(os.path.join(HERE, "evidence", f"{prop}.json"), "w") as f:
            json.dump(evidence, f, indent=1)

    print(f"{prop} tier={args.tier} seed={seed} evaluations={evals} distinct_nontrivial={len(nontrivial)} known_hits={sum(known_hits.values())} wall={wall:.1f}s")
    if rc == 0 and (len(nontrivial) < floor or missing) and args.scale >= 1:
        print(f"HARNESS-ERROR vacuous run: distinct_nontrivial={len(nontrivial)} floor={floor} missing_labels={missing}")
        return 2
    return rc


if __name__ == "__main__":
    sys.exit(main())
