"""C13 — every derived Aave view equals a from-scratch recomputation, after any interleaving of reads and writes."""
from decimal import Decimal
from fractions import Fraction

from vf import aave
from vf.aave import INF, Ref, close, fr
from vf.engine import Ctx, derive_seed, replay_body, run_given
from vf.gen.aave import st_case

PROPERTY = "C13"
RULE = (
    "generated Aave histories (2-4 tokens with generated risk parameters, 1-8 bars of index / rate / price rows, 0-6 "
    "operations per bar drawn from supply / withdraw / borrow / repay (cash and with collateral) / collateral-flag "
    "change / reads of a random derived view, with relative amounts from 0 to 10x the holding, accepted and rejected, "
    "plus end-of-bar liquidation); after every step every derived view is compared with a Fraction recomputation from "
    "the raw positions, the bar's rows and prices. Non-trivial = a read of a view, then an accepted write, then the "
    "comparison of that same view, within one bar; distinct by case hash."
)
ASSUMPTIONS = [
    "the raw containers _supplies / _borrows are the ground truth of the position; views are derived from them",
    "values that the code quantises to 1e-4 (get_market_balance) are compared with tolerance 0.51e-4; everything else at 1e-25 relative",
]
MIN_NONTRIVIAL = {"quick": 800, "thorough": 15000}
REQUIRED_LABELS = ["write.flag.ok", "write.supply.ok", "write.withdraw.ok", "write.borrow.ok", "write.repay.ok", "liquidation", "rejected", "newbar"]

Q = Fraction(51, 10**6)
APY_N = 31536000


_APY = {}


def apy_of(rate) -> Fraction:
    if rate not in _APY:
        _APY[rate] = _apy_of(rate)
    return _APY[rate]


def _apy_of(rate) -> Fraction:
    # (1 + r/N)^N - 1 is evaluated by the code in 35-digit Decimal; the reference uses the same closed form with
    # 60-digit arithmetic (the exact rational has ~10^8 digits, so it is not formed)
    import decimal

    with decimal.localcontext() as c:
        c.prec = 60
        r = Decimal(str(rate))
        return fr((1 + r / APY_N) ** APY_N - 1)


class Obs(aave.Observer):
    def __init__(self, ctx: Ctx, case):
        self.ctx = ctx
        self.case = case
        self.read_since_bar = False
        self.rww = False  # read -> accepted write -> compare, in one bar
        self.wrote_after_read = False
        self.labels = set()

    # every hook ends in a full comparison
    def bar_start(self, w, i):
        self.read_since_bar = False
        self.wrote_after_read = False
        if i > 0:
            self.labels.add("newbar")
        self.compare(w, "newbar")

    def after_op(self, w, opamt, out):
        op, _ = opamt
        kind = op[0]
        if kind == "read":
            if out[0] == "ok":
                self.read_since_bar = True
            self.compare(w, "read")
            return
        if out[0] == "ok":
            self.labels.add(f"write.{kind}.ok")
            if self.read_since_bar:
                self.wrote_after_read = True
        else:
            self.labels.add("rejected")
        self.compare(w, f"{kind}.{out[0]}")

    def after_update(self, w, err):
        if err is not None:
            # an exception escaping update() is C12's subject; here the views are still compared
            self.labels.add("update.raised")
        self.compare(w, "update")

    def on_action(self, w, a):
        if type(a).__name__ == "LiquidationAction":
            self.labels.add("liquidation")
            if self.read_since_bar:
                self.wrote_after_read = True

    def compare(self, w, where):
        ctx, case = self.ctx, self.case
        # the comparison itself reads every view (and so fills every cache). In 'sparse' cases it only runs at the steps the
        # generated mask selects, so that writes also meet caches that nobody has looked at since the last reset
        self.step = getattr(self, "step", -1) + 1
        if case.get("sparse") and not case["mask"][self.step % len(case["mask"])]:
            self.labels.add("compare.skipped")
            return
        m = w.market
        r = Ref(w)
        T = w.tok
        rel = Fraction(1, 10**25)

        def chk(cond, view, msg):
            ctx.check(cond, f"view.{view}.after.{where.split('.')[0]}", lambda: f"{view} after {where} in bar {w.bar}: {msg() if callable(msg) else msg}", case)

        sv = ctx.guarded("view.supplies_value", case, lambda: dict(m.supplies_value))
        if sv is not None:
            chk(set(k.name for k in sv) == set(r.sup_val), "supplies_value", lambda: f"keys {sorted(k.name for k in sv)} vs {sorted(r.sup_val)}")
            for k, v in sv.items():
                if k.name in r.sup_val:
                    chk(close(v, r.sup_val[k.name], rel), "supplies_value", lambda: f"{k.name}: {v} vs {float(r.sup_val[k.name])}")
        bv = ctx.guarded("view.borrows_value", case, lambda: dict(m.borrows_value))
        if bv is not None:
            chk(set(k.name for k in bv) == set(r.bor_val), "borrows_value", lambda: f"keys {sorted(k.name for k in bv)} vs {sorted(r.bor_val)}")
            for k, v in bv.items():
                if k.name in r.bor_val:
                    chk(close(v, r.bor_val[k.name], rel), "borrows_value", lambda: f"{k.name}: {v} vs {float(r.bor_val[k.name])}")
        cv = ctx.guarded("view.collateral_value", case, lambda: dict(m.collateral_value))
        if cv is not None:
            chk(set(k.name for k in cv) == set(r.col_val), "collateral_value", lambda: f"keys {sorted(k.name for k in cv)} vs {sorted(r.col_val)}")
            for k, v in cv.items():
                if k.name in r.col_val:
                    chk(close(v, r.col_val[k.name], rel), "collateral_value", lambda: f"{k.name}: {v} vs {float(r.col_val[k.name])}")
        tot = ctx.guarded("view.totals", case, lambda: (m.total_supply_value, m.total_borrows_value, m.total_collateral_value))
        if tot is not None:
            for nm, got, exp in zip(("total_supply", "total_borrows", "total_collateral"), tot, (r.S, r.B, r.C)):
                chk(close(got, exp, rel), nm, lambda: f"{got} vs {float(exp)}")
        sup = ctx.guarded("view.supplies", case, lambda: dict(m.supplies))
        if sup is not None:
            chk(set(k.name for k in sup) == set(r.sup_amt), "supplies", lambda: f"keys {sorted(k.name for k in sup)} vs {sorted(r.sup_amt)}")
            for k, s in sup.items():
                n = k.name
                if n not in r.sup_amt:
                    continue
                chk(bool(s.collateral) == r.flag[n], "supplies.flag", lambda: f"{n}: listed collateral flag {s.collateral} vs position {r.flag[n]}")
                chk(close(s.amount, r.sup_amt[n], rel), "supplies.amount", lambda: f"{n}: {s.amount} vs {float(r.sup_amt[n])}")
                chk(close(s.value, r.sup_val[n], rel), "supplies.value", lambda: f"{n}: {s.value} vs {float(r.sup_val[n])}")
                chk(fr(s.base_amount) == fr(m._supplies[k].base_amount), "supplies.base", lambda: f"{n}: {s.base_amount}")
                chk(close(s.apy, apy_of(w.rows[n]["lr"]), Fraction(1, 10**20)), "supplies.apy", lambda: f"{n}: {s.apy}")
        bor = ctx.guarded("view.borrows", case, lambda: dict(m.borrows))
        if bor is not None:
            chk(set(k.name for k in bor) == set(r.bor_amt), "borrows", lambda: f"keys {sorted(k.name for k in bor)} vs {sorted(r.bor_amt)}")
            for k, b in bor.items():
                n = k.name
                if n not in r.bor_amt:
                    continue
                chk(close(b.amount, r.bor_amt[n], rel), "borrows.amount", lambda: f"{n}: {b.amount} vs {float(r.bor_amt[n])}")
                chk(close(b.value, r.bor_val[n], rel), "borrows.value", lambda: f"{n}: {b.value} vs {float(r.bor_val[n])}")
                chk(close(b.apy, apy_of(w.rows[n]["br"]), Fraction(1, 10**20)), "borrows.apy", lambda: f"{n}: {b.apy}")
        hf = ctx.guarded("view.health_factor", case, lambda: m.health_factor)
        if hf is not None:
            chk(close(hf, r.hf, rel), "health_factor", lambda: f"{hf} vs {r.hf if r.hf == INF else float(r.hf)}")
        ml = ctx.guarded("view.max_ltv", case, lambda: m.max_ltv)
        if ml is not None:
            chk(close(ml, r.max_ltv, rel), "max_ltv", lambda: f"{ml} vs {r.max_ltv if r.max_ltv == INF else float(r.max_ltv)}")
        lt = ctx.guarded("view.liquidation_threshold", case, lambda: m.liquidation_threshold)
        if lt is not None:
            chk(close(lt, r.lt, rel), "liquidation_threshold", lambda: f"{lt} vs {r.lt if r.lt == INF else float(r.lt)}")
        ltv = ctx.guarded("view.ltv", case, lambda: m.ltv)
        if ltv is not None:
            chk(close(ltv, r.ltv, rel), "ltv", lambda: f"{ltv} vs {r.ltv if r.ltv == INF else float(r.ltv)}")
        # apys: value-weighted means of the per-token apys
        s_apy = sum((v * apy_of(w.rows[n]["lr"]) for n, v in r.sup_val.items()), Fraction(0)) / r.S if r.S else Fraction(0)
        b_apy = sum((v * apy_of(w.rows[n]["br"]) for n, v in r.bor_val.items()), Fraction(0)) / r.B if r.B else Fraction(0)
        ap = ctx.guarded("view.apys", case, lambda: (m.supply_apy, m.borrow_apy))
        if ap is not None:
            chk(close(ap[0], s_apy, Fraction(1, 10**18), Fraction(1, 10**25)), "supply_apy", lambda: f"{ap[0]} vs {float(s_apy)}")
            chk(close(ap[1], b_apy, Fraction(1, 10**18), Fraction(1, 10**25)), "borrow_apy", lambda: f"{ap[1]} vs {float(b_apy)}")
        bal = ctx.guarded("view.balance", case, lambda: m.get_market_balance())
        if bal is not None:
            chk(close(bal.supplies_value, r.S, 0, Q), "balance.supplies_value", lambda: f"{bal.supplies_value} vs {float(r.S)}")
            chk(close(bal.borrows_value, r.B, 0, Q), "balance.borrows_value", lambda: f"{bal.borrows_value} vs {float(r.B)}")
            chk(close(bal.collaterals_value, r.C, 0, Q), "balance.collaterals_value", lambda: f"{bal.collaterals_value} vs {float(r.C)}")
            chk(close(bal.net_value, r.S - r.B, 0, 2 * Q), "balance.net_value", lambda: f"{bal.net_value} vs {float(r.S - r.B)}")
            chk(bal.supplies_count == len(r.sup_amt) and bal.borrows_count == len(r.bor_amt), "balance.counts", lambda: f"{bal.supplies_count}/{bal.borrows_count}")
            chk(close(bal.health_factor, r.hf, 0, Q), "balance.health_factor", lambda: f"{bal.health_factor} vs {r.hf if r.hf == INF else float(r.hf)}")
            chk(close(bal.max_ltv, r.max_ltv, 0, Q), "balance.max_ltv", lambda: f"{bal.max_ltv}")
            chk(close(bal.liquidation_threshold, r.lt, 0, Q), "balance.liquidation_threshold", lambda: f"{bal.liquidation_threshold}")
            chk(close(bal.ltv, r.ltv, rel), "balance.ltv", lambda: f"{bal.ltv}")
            chk(close(bal.supply_apy, s_apy, 0, Q), "balance.supply_apy", lambda: f"{bal.supply_apy} vs {float(s_apy)}")
            chk(close(bal.borrow_apy, b_apy, 0, Q), "balance.borrow_apy", lambda: f"{bal.borrow_apy} vs {float(b_apy)}")
        if self.wrote_after_read:
            self.rww = True


def st_views_case():
    from hypothesis import strategies as st

    @st.composite
    def build(draw):
        case = draw(st_case("views", max_bars=8, max_ops=6))
        case["sparse"] = draw(st.booleans())
        case["mask"] = draw(st.lists(st.sampled_from([True, False, False]), min_size=6, max_size=6))
        return case

    return build()


def body(case, ctx: Ctx):
    obs = Obs(ctx, case)
    w = aave.World(case, obs)
    w.run()
    ctx.case(case, obs.rww, sorted(obs.labels))


def shards(tier, seed):
    n = 400 if tier == "quick" else 8000
    return [{"sub": "views", "idx": i, "n": n, "seed": derive_seed(seed, PROPERTY, "views", i)} for i in range(16)]


def run_shard(spec):
    ctx = Ctx(PROPERTY, spec["sub"])
    v = run_given(ctx, st_views_case(), body, spec["n"], spec["seed"])
    return ctx.result(v)


def replay(rec):
    return replay_body(PROPERTY, body, rec["case"], rec["sub"])
