"""Hypothesis strategies for multi-market universes (case format: vf/multi.py)."""
from decimal import Decimal

from hypothesis import strategies as st

D = Decimal
FR = ["0", "0.000001", "0.1", "0.5", "0.9", "1", "1.000001", "1.00005", "1.5", "10"]
FR_OK = ["0.05", "0.1", "0.3", "0.5", "0.9", "1"]
KINDS = ["uni", "aave", "sq", "opt", "glp", "gm"]


def fs(x: Decimal, q="0.00000001") -> str:
    return format(D(x).quantize(D(q)), "f")


@st.composite
def st_paths(draw, n, crashy):
    eth = D(draw(st.integers(1500, 3500)))
    osq = D(draw(st.integers(500, 2000))) / D(10000)
    avax = D(draw(st.integers(2000, 4000))) / D(100)
    E, O, A = [], [], []
    for i in range(n):
        if i:
            mv = draw(st.sampled_from(["flat", "flat", "drift", "drift", "jump_up", "jump_down"] if crashy else ["flat", "flat", "drift", "drift", "drift", "jump_up"]))
            f = {"flat": 1000, "drift": draw(st.integers(996, 1004)), "jump_up": draw(st.integers(1030, 1250)), "jump_down": draw(st.integers(700, 970))}[mv]
            eth = eth * f / 1000
            osq = osq * f / 1000 * draw(st.integers(985, 1015)) / 1000
            avax = avax * draw(st.integers(990, 1010)) / 1000
        E.append(fs(eth, "0.01"))
        O.append(fs(osq))
        A.append(fs(avax, "0.0001"))
    return E, O, A


@st.composite
def st_pool_rows(draw, n, d0, d1):
    noise = [draw(st.sampled_from([0, 0, 0, 1, -1, 7, -12])) for _ in range(n)]
    liqs = [str(draw(st.sampled_from([10**12, 10**18, 10**21, 123456789012345678901]))) for _ in range(n)]
    in0 = [str(draw(st.sampled_from([0, 10**d0, 7 * 10 ** (d0 + 3) + 13, 5 * 10 ** (d0 + 5)]))) for _ in range(n)]
    in1 = [str(draw(st.sampled_from([0, 10**d1, 3 * 10 ** (d1 + 2) + 1, 2 * 10 ** (d1 + 3)]))) for _ in range(n)]
    return noise, liqs, in0, in1


@st.composite
def st_aave(draw, n):
    toks = []
    for nme, dec in (("WETH", 18), ("USDC", 6), ("DAI", 18)):
        coll = draw(st.sampled_from([True, True, True, False]))
        if coll:
            lt = draw(st.integers(6000, 9300))
            ltv = draw(st.integers(4000, lt))
            bonus = min(draw(st.sampled_from([400, 500, 750, 1000])), (10**8 // lt) - 10000)
        else:
            ltv, lt, bonus = 0, 0, 500
        toks.append({"name": nme, "dec": dec, "ltv": ltv, "lt": lt, "bonus": bonus, "coll": coll, "borrow": draw(st.sampled_from([True, True, True, False]))})
    if not any(t["coll"] for t in toks):
        toks[0].update(coll=True, ltv=7500, lt=8000, bonus=500)
    if not any(t["borrow"] for t in toks):
        toks[1]["borrow"] = True
    li, bi = {}, {}
    for t in toks:
        a = D(1) + D(draw(st.integers(0, 5 * 10**8))) / D(10**9)
        b = D(1) + D(draw(st.integers(0, 8 * 10**8))) / D(10**9)
        la, lb = [], []
        for i in range(n):
            if i:
                g = draw(st.sampled_from(["flat", "tiny", "small"]))
                ga = {"flat": D(1), "tiny": D(1) + D(draw(st.integers(1, 10**6))) / D(10**13), "small": D(1) + D(draw(st.integers(1, 10**6))) / D(10**9)}[g]
                a = (a * ga).quantize(D("1e-27"))
                b = (b * ga * ga).quantize(D("1e-27"))
            la.append(format(a, "f"))
            lb.append(format(b, "f"))
        li[t["name"]], bi[t["name"]] = la, lb
    return {"tokens": toks, "li": li, "bi": bi, "lr": {t["name"]: draw(st.sampled_from(["0", "0.021", "0.35"])) for t in toks}, "br": {t["name"]: draw(st.sampled_from(["0", "0.043", "0.6"])) for t in toks}}


@st.composite
def st_opt(draw, start, n, eth0):
    hs = (start + n - 1) // 60 - start // 60 + 1
    dyadic = draw(st.integers(0, 3)) == 0  # binary-exact price grid with tiny marks: levels exactly on mark x 1.5 / 2 / 3
    inst = []
    for i in range(draw(st.integers(1, 3))):
        kind = draw(st.sampled_from(["CALL", "PUT"]))
        cls = draw(st.sampled_from(["inside", "inside", "after", "before"]))
        if cls == "inside":
            exp_min = start + draw(st.integers(0, n + 5))
        elif cls == "after":
            exp_min = start + n + draw(st.integers(30, 600))
        else:
            exp_min = start - draw(st.integers(0, 90))
        strike = int(eth0) + draw(st.sampled_from([-400, -100, -20, 0, 20, 100, 400]))
        inst.append({"type": kind, "strike": max(strike, 1), "exp_min": exp_min, "marks": [draw(st.integers(1, 4) if dyadic else st.integers(1, 300)) for _ in range(hs + 1)], "listed_at_expiry": draw(st.sampled_from([True, True, False]))})
    return {"dyadic": dyadic, "instruments": inst, "asks": [draw(st.sampled_from([1, 5, 40, 1000])) for _ in range(draw(st.integers(1, 3)))], "bids": [draw(st.sampled_from([1, 5, 40, 1000])) for _ in range(draw(st.integers(1, 3)))]}


@st.composite
def st_glp(draw, n):
    toks = ["weth", "wavax", "usdc"]
    usdg_total = draw(st.integers(10**23, 10**26))
    weight = {"weth": 20000, "wavax": 10000, "usdc": 46000}
    tw = sum(weight.values())
    usdg = {}
    for t in toks:
        target = weight[t] * usdg_total // tw
        f = draw(st.sampled_from(["0.3", "0.9", "1", "1.1", "3"]))
        usdg[t] = str(int(D(f) * target))
    glp = D(draw(st.integers(10**22, 10**26)))
    gp = D(draw(st.integers(700000, 1500000))) / D(10**6)
    G, P = [], []
    for i in range(n):
        if i:
            glp = glp + draw(st.sampled_from([0, 0, 10**18, -(10**17)]))
            gp = (gp * draw(st.integers(999000, 1001000)) / 10**6).quantize(D("1e-12"))
        G.append(str(glp))
        P.append(format(gp, "f"))
    return {"tokens": toks, "weight": weight, "usdg": usdg, "glp": G, "gp": P, "interval": draw(st.sampled_from([0.0, 789480314626619.0 / 10**18, 1.5e-5]))}


@st.composite
def st_gm(draw, n, eth0):
    long0 = draw(st.integers(500, 5000))
    imb = draw(st.sampled_from(["0.2", "0.8", "1", "1.25", "5"]))
    short0 = int(long0 * float(eth0) * float(imb))
    L, S, PV = [], [], []
    for i in range(n):
        L.append(str(long0 + (draw(st.integers(-20, 20)) if i else 0)))
        S.append(str(short0 + (draw(st.integers(-20000, 20000)) if i else 0)))
        PV.append(str(draw(st.sampled_from([0.95, 1.0, 1.0, 1.07]))))
    supply = (long0 * float(eth0) + short0) / draw(st.sampled_from([0.8, 1.0, 1.37]))
    return {"long": L, "short": S, "pv_factor": PV, "supply": str(supply), "impact": str(draw(st.sampled_from([0.0, 0.0, 3.5, 1e6]))), "virt": draw(st.booleans())}


# ---------------------------------------------------------------------------------------------- programs
@st.composite
def st_op(draw, key, rich=True):
    fr_any = st.sampled_from(FR)
    fr_ok = st.sampled_from(FR_OK)
    f = draw(st.one_of(fr_ok, fr_ok, fr_any)) if rich else draw(fr_ok)
    if key in ("uni", "squni"):
        k = draw(st.sampled_from(["add", "add", "add", "add_price", "add_value", "remove", "remove", "collect", "buy", "sell", "swap", "rebalance", "remove_all"]))
        if k == "add":
            return [key, k, draw(st.integers(-12, 6)), draw(st.integers(1, 14)), f, draw(st.one_of(fr_ok, fr_any))]
        if k == "add_price":
            lo = draw(st.sampled_from(["0.5", "0.9", "0.99", "1.01"]))
            return [key, k, lo, format(D(lo) * D(draw(st.sampled_from(["1.02", "1.2", "2"]))), "f"), f, draw(fr_ok)]
        if k == "add_value":
            return [key, k, draw(st.integers(-30, 20)), draw(st.integers(2, 40)), draw(st.one_of(st.none(), fr_ok, fr_any))]
        if k == "remove":
            return [key, k, draw(st.integers(0, 3)), draw(st.one_of(st.none(), fr_ok, fr_any)), draw(st.booleans())]
        if k == "collect":
            return [key, k, draw(st.integers(0, 3)), draw(st.one_of(st.none(), fr_any)), draw(st.one_of(st.none(), fr_any))]
        if k in ("buy", "sell"):
            return [key, k, f]
        if k == "swap":
            return [key, k, draw(st.booleans()), f]
        return [key, k]
    if key == "aave":
        k = draw(st.sampled_from(["supply", "supply", "supply", "withdraw", "withdraw", "borrow", "borrow", "borrow", "repay", "repay", "flag"]))
        tok = lambda sel: draw(st.one_of(st.sampled_from(["WETH", "USDC", "DAI"]), st.builds(lambda i: f"@{sel}:{i}", st.integers(0, 2))))  # noqa
        if k == "supply":
            return [key, k, tok("funded"), f, draw(st.sampled_from([True, True, True, False]))]
        if k == "withdraw":
            return [key, k, tok("supplied"), draw(st.one_of(st.none(), fr_any, fr_any, st.sampled_from(["q18up", "q18down"])))]
        if k == "borrow":
            return [key, k, draw(st.sampled_from(["WETH", "USDC", "DAI"])), draw(st.one_of(st.none(), st.sampled_from(["0.1", "0.5", "0.9", "0.999", "1", "1.02", "2"])))]
        if k == "repay":
            wc = draw(st.sampled_from([False, False, True]))
            return [key, k, tok("debt"), draw(st.one_of(st.none(), fr_any, fr_any, st.sampled_from(["q18up", "q18up", "q18down"]))), wc, tok("supplied") if wc and draw(st.booleans()) else None]
        return [key, k, tok("supplied"), draw(st.booleans())]
    if key == "sq":
        k = draw(st.sampled_from(["open", "open", "open", "mint", "deposit", "burn_withdraw", "burn_withdraw", "lp_deposit", "lp_withdraw", "buy_sq", "sell_sq"]))
        lim = st.sampled_from(["0", "0.3", "0.6", "0.9", "0.999", "1.001", "1.3"])
        if k == "open":
            return [key, k, draw(st.sampled_from(["0.4", "0.6", "1", "3", "20", "1000"])), draw(lim), draw(st.booleans())]
        if k == "mint":
            return [key, k, draw(st.integers(0, 2)), draw(st.sampled_from(["0.05", "0.2", "0.5", "1.2"]))]
        if k == "deposit":
            return [key, k, draw(st.integers(0, 2)), f]
        if k == "burn_withdraw":
            return [key, k, draw(st.integers(0, 2)), draw(st.sampled_from(["0", "0.3", "1", "2"])), draw(st.sampled_from(["0", "0.2", "0.9", "1", "5"]))]
        if k == "lp_deposit":
            return [key, k, draw(st.integers(0, 2)), draw(st.integers(0, 2)), draw(st.sampled_from([False, False, True]))]
        if k == "lp_withdraw":
            return [key, k, draw(st.integers(0, 2))]
        return [key, k, f]
    if key == "opt":
        k = draw(st.sampled_from(["deposit", "deposit", "withdraw", "buy", "buy", "buy", "sell", "sell"]))
        if k in ("deposit", "withdraw"):
            return [key, k, f]
        mode = draw(st.sampled_from([None, None, None, ["cap", "1.02"], ["cap", "1.5"], ["cap", "2"], ["cap", "3"], ["token", 0], ["token", 1], ["usd", 0],
                                     ["token", 0, "1.0004"], ["usd", 0, "1.0004"], ["usd", 1, "0.9996"]]))  # third element: a limit price a few 0.01% off the level (the +-0.1% window)
        return [key, k, draw(st.integers(0, 3)), draw(st.sampled_from(["0.4", "1", "2", "7", "45", "5000"])), mode]
    if key == "glp":
        k = draw(st.sampled_from(["buy_glp", "buy_glp", "sell_glp"]))
        return [key, k, draw(st.sampled_from(["weth", "usdc", "wavax"])), f]
    if key == "gm":
        k = draw(st.sampled_from(["deposit", "deposit", "withdraw"]))
        if k == "deposit":
            return [key, k, f, draw(st.one_of(fr_ok, fr_any))]
        return [key, k, draw(st.one_of(st.none(), fr_any))]
    if key == "broker":
        a, b = draw(st.sampled_from([("USDC", "WETH"), ("WETH", "USDC"), ("WETH", "DAI"), ("DAI", "USDC"), ("WETH", "ETH"), ("USDC", "WAVAX")]))
        return [key, draw(st.sampled_from(["swap_from", "swap_to"])), a, b, f]
    raise ValueError(key)


def market_keys(order):
    out = []
    for k in order:
        if k == "sq":
            out += ["squni", "sq", "sq"]
        else:
            out.append(k)
    return out


@st.composite
def st_prog(draw, order, nbars, mode="loop", max_ops=14, open_bars=()):
    keys = market_keys(order) + ["broker"]
    prog = []
    for _ in range(draw(st.integers(1, max_ops))):
        key = draw(st.sampled_from(keys))
        bar = draw(st.integers(0, nbars - 1)) if mode == "loop" else 0
        phase = draw(st.sampled_from(["before", "trigger", "on", "on", "after", "notify", "init"] if mode == "loop" else ["on"]))
        if phase == "init":
            bar = 0  # operations issued from Strategy.initialize(): recorded in, and notified at the end of, the first bar
        prog.append([bar, phase] + draw(st_op(key)))
    if mode == "loop":
        # reads of the market balance / account status from inside the phases (no record, no state change)
        for _ in range(draw(st.integers(0, 3))):
            prog.append([draw(st.integers(0, nbars - 1)), draw(st.sampled_from(["before", "on", "on", "after"])), draw(st.sampled_from(market_keys(order))), "read"])
    # preludes: with probability 1/2 per market, operations that establish a holding early (so later ones meet state)
    pre = []
    pb = 0
    ph = "before"
    for key in order:
        if not draw(st.booleans()):
            continue
        if key == "uni":
            pre.append([pb, ph, "uni", "add", draw(st.integers(-8, 0)), draw(st.integers(9, 20)), "0.3", "0.3"])
        elif key == "aave":
            pre.append([pb, ph, "aave", "supply", "@funded:0", "0.5", True])
            pre.append([pb, ph, "aave", "supply", "@funded:1", "0.5", True])
            if draw(st.booleans()):
                pre.append([pb, ph, "aave", "borrow", draw(st.sampled_from(["WETH", "USDC", "DAI"])), draw(st.sampled_from(["0.3", "0.9", "1"]))])
        elif key == "sq":
            lp = draw(st.booleans())
            if lp:
                pre.append([pb, ph, "squni", "buy", "0.2"])
                pre.append([pb, ph, "squni", "add", draw(st.integers(-6, -1)), draw(st.integers(7, 14)), "0.5", "0.2"])
            pre.append([pb, ph, "sq", "open", draw(st.sampled_from(["1", "3"])), draw(st.sampled_from(["0.5", "0.9", "0.999"])), lp])
        elif key == "opt":
            pre.append([pb, ph, "opt", "deposit", "0.5"])
            ob = draw(st.sampled_from(list(open_bars))) if open_bars and mode == "loop" else pb  # trades need an open (on-the-hour) bar
            pre.append([ob, draw(st.sampled_from(["before", "on"])), "opt", "buy", draw(st.integers(0, 2)), draw(st.sampled_from(["1", "7"])), draw(st.sampled_from([None, ["cap", "3"], ["cap", "1.5"], ["token", 0]]))])
        elif key == "glp":
            pre.append([pb, ph, "glp", "buy_glp", draw(st.sampled_from(["weth", "usdc"])), "0.2"])
        elif key == "gm":
            pre.append([pb, ph, "gm", "deposit", "0.2", "0.2"])
    prog = pre + prog
    # motifs: short dependent sequences that random interleaving rarely produces (inserted at a random place, in order)
    for _ in range(draw(st.integers(0, 2))):
        kinds = [k for k in ("uni", "sq", "opt", "aave", "glp", "gm") if k in order]
        mk = draw(st.sampled_from(kinds))
        over = draw(st.sampled_from(["0.5", "1", "1.000001", "1.5", "10"]))
        if mk == "uni" or (mk == "sq" and draw(st.booleans())):
            key = "uni" if mk == "uni" else "squni"
            motif = [[key, "buy", "0.2"], [key, "add", draw(st.integers(-6, 0)), draw(st.integers(7, 14)), "0.5", "0.5"], [key, "remove", 0, draw(st.sampled_from([None, "0.5", over])), False], [key, "collect", 0, over, draw(st.sampled_from([None, over]))]]
        elif mk == "sq":
            motif = [["squni", "buy", "0.2"], ["squni", "add", draw(st.integers(-6, -1)), draw(st.integers(7, 14)), "0.5", "0.2"], ["sq", "open", "1", draw(st.sampled_from(["0", "0.5"])), True],
                     draw(st.sampled_from([["squni", "remove", 0, None, True], ["squni", "remove_all"], ["squni", "collect", 0, None, None], ["sq", "lp_withdraw", 0], ["squni", "add", 0, 1, "0.1", "0.1"], ["sq", "open", "1", "0", False]])),
                     draw(st.sampled_from([["sq", "lp_deposit", 1, 0, True], ["sq", "lp_deposit", 0, 0, True], ["sq", "burn_withdraw", 0, over, over]])), ["sq", "burn_withdraw", 0, over, over]]
        elif mk == "opt":
            motif = [["opt", "deposit", "0.5"], ["opt", "buy", 0, "2", draw(st.sampled_from([None, ["cap", "3"], ["usd", 0]]))], ["opt", "sell", 0, draw(st.sampled_from(["1", "2", "3", "45"])), draw(st.sampled_from([None, ["cap", "3"], ["token", 0]]))], ["opt", "withdraw", over]]
        elif mk == "aave":
            motif = [["aave", "supply", "@funded:0", "0.5", True], ["aave", "borrow", draw(st.sampled_from(["WETH", "USDC", "DAI"])), "0.9"], ["aave", "repay", "@debt:0", over, draw(st.booleans()), None], ["aave", "withdraw", "@supplied:0", over]]
        elif mk == "glp":
            motif = [["glp", "buy_glp", draw(st.sampled_from(["weth", "usdc"])), "0.3"], ["glp", "sell_glp", draw(st.sampled_from(["weth", "usdc", "wavax"])), over]]
        else:
            motif = [["gm", "deposit", "0.3", "0.1"], ["gm", "withdraw", over]]
        bar = draw(st.integers(0, nbars - 1)) if mode == "loop" else 0
        if mk == "opt" and open_bars and mode == "loop":
            bar = draw(st.sampled_from(list(open_bars)))
        at = draw(st.integers(0, len(prog)))
        prog = prog[:at] + [[bar, "on"] + m for m in motif] + prog[at:]
    if mode == "loop":
        prog.sort(key=lambda o: o[0])
    return prog


@st.composite
def st_universe(draw, mode="loop", kinds=None, max_bars=8, max_ops=14, need=None):
    """mode 'loop': any interval / quote / external prices; mode 'frozen': 1-minute bars, consistent prices, USD-like quote."""
    pool = list(kinds or KINDS)
    sel = [k for k in pool if draw(st.booleans())]
    if need:
        for k in need:
            if k not in sel:
                sel.append(k)
    minute_kinds = [k for k in sel if k != "opt"]
    if not minute_kinds:
        sel.append(draw(st.sampled_from([k for k in pool if k != "opt"] or ["uni"])))
    order = list(draw(st.permutations(sel)))
    k = 1 if mode == "frozen" else draw(st.sampled_from([1, 1, 1, 1, 2, 5, 15, 60]))
    nb = draw(st.integers(2, max_bars)) if k < 60 else draw(st.integers(1, 3))
    n = nb * k - (draw(st.integers(0, k - 1)) if k > 1 else 0)
    if "opt" in order:
        n = max(n, 3)
    if "opt" in order and mode == "frozen" and draw(st.booleans()):
        start = 60 * draw(st.integers(1, 30))  # the frozen bar is on the hour: the option market is open
    elif "opt" in order and draw(st.booleans()):
        start = 60 * draw(st.integers(1, 30)) - draw(st.integers(1, n - 1))  # an hour boundary inside the range
    else:
        start = draw(st.integers(0, 40 * 60))
    if "opt" in order:
        n = max(n, (start + n - 1) // 60 - start // 60 + 2)  # more minute rows than hourly snapshots: the minute grid drives the loop
    usd_valued = any(x in order for x in ("aave", "sq", "glp", "gm"))
    if mode == "frozen":
        quote = draw(st.sampled_from(["USD", "USD", "USDC"]))
        usdc = "1"
    else:
        quote = draw(st.sampled_from(["USD", "USD", "USDC"] if usd_valued else ["USD", "USDC", "WETH"]))
        usdc = draw(st.sampled_from(["1", "1", "0.9993"])) if quote == "USD" else "1"
    eth, osq, avax = draw(st_paths(n, crashy=mode == "loop"))
    case = {"start": start, "n": n, "k": k, "quote": quote, "order": order, "eth": eth, "osq": osq, "avax": avax, "usdc": usdc}
    if mode == "frozen":
        case["consistent"] = True
        case["index_eq_mark"] = draw(st.booleans())
    elif draw(st.integers(0, 3)) == 0:
        case["jitter"] = {t: draw(st.sampled_from(["0.97", "1.02"])) for t in draw(st.lists(st.sampled_from(["WETH", "OSQTH", "ETH", "DAI"]), max_size=2, unique=True))}
    if "uni" in order:
        usdc_first = draw(st.booleans())
        noise, liqs, in0, in1 = draw(st_pool_rows(n, 6 if usdc_first else 18, 18 if usdc_first else 6))
        case["uni"] = {"usdc_first": usdc_first, "quote": draw(st.sampled_from(["USDC", "USDC", "WETH"])), "fee": draw(st.sampled_from(["0.05", "0.3", "1"])), "noise": noise, "liqs": liqs, "in0": in0, "in1": in1}
    if "sq" in order:
        noise, liqs, in0, in1 = draw(st_pool_rows(n, 18, 18))
        nf = D(draw(st.integers(2000, 9000))) / D(10000)
        nfs = []
        for i in range(n):
            nf = (nf * D(draw(st.sampled_from([1000000, 999990, 999000]))) / 1000000).quantize(D("0.0000000001"))
            nfs.append(format(nf, "f"))
        case["sq"] = {"noise": noise, "liqs": liqs, "in0": in0, "in1": in1, "nf": nfs}
    if "aave" in order:
        case["aave"] = draw(st_aave(n))
    if "opt" in order:
        case["opt"] = draw(st_opt(start, n, D(eth[0])))
    if "glp" in order:
        case["glp"] = draw(st_glp(n))
    if "gm" in order:
        case["gm"] = draw(st_gm(n, D(eth[0])))
    case["wallet"] = {"USDC": draw(st.sampled_from(["0", "5000", "100000", "100000"])), "WETH": draw(st.sampled_from(["0", "2", "50", "50"])), "OSQTH": draw(st.sampled_from(["0", "0", "30"])),
                      "DAI": draw(st.sampled_from(["0", "20000"])), "ETH": draw(st.sampled_from(["0", "20", "20"])), "WAVAX": draw(st.sampled_from(["0", "500"]))}
    case["sparse_wallet"] = draw(st.booleans())  # tokens with a zero balance have no wallet entry at all
    case["price_chunks"] = mode == "loop" and draw(st.integers(0, 3)) == 0  # the price frame handed over in two consecutive time chunks
    case["reused_markets"] = draw(st.integers(0, 3)) == 0  # market objects that were attached to another broker before
    nbars = (start + n - 1) // k - start // k + 1
    first_bin = start // k
    open_bars = [b for b in range(nbars) if ((first_bin + b) * k) % 60 == 0 and (first_bin + b) * k >= (start // 60) * 60]
    case["prog"] = draw(st_prog(order, nbars, mode, max_ops, open_bars))
    return case
