#!/venv/bin/python
"""Regenerate MANIFEST.json from the table below (kept next to the code so it stays current)."""
import json, os, sys
HERE = os.path.dirname(os.path.dirname(os.path.abspath(__file__)))
sys.path.insert(0, HERE)
from tools.manifest_table import CHECKS, NOT_APPLICABLE, NOTES

props = [json.loads(l)["id"] for l in open(os.path.join(HERE, "properties.jsonl"))]
checks = []
for pid in props:
    if pid not in CHECKS:
        continue
    c = CHECKS[pid]
    checks.append({
        "property_id": pid,
        "quick_cmd": f"./check {pid} --tier quick",
        "thorough_cmd": f"./check {pid} --tier thorough",
        "evidence_file": f"/verif/evidence/{pid}.json",
        "replay_cmd_template": f"./check {pid} --replay {{path}}",
        "engine": "vf",
        "level_claimed": {"category": "exploration", "text": c["text"], "design_ref": f"DESIGN.md section 3, {pid}"},
        "level_note": c["note"],
        "technique": c["technique"],
    })
na = [{"property_id": p, "reason": NOT_APPLICABLE.get(p, "check not built yet in this tree; no claim is made")} for p in props if p not in CHECKS]
man = {
    "version": 1,
    "setup_cmd": "/venv/bin/python -c 'import hypothesis' 2>/dev/null || /venv/bin/pip install --no-index --find-links /opt/veriftools/wheels hypothesis",
    "hooks": {
        "guard": "DEMETER_VERIF",
        "enable": "no source hooks are needed: checks import /repo's working tree (PYTHONPATH) and observe it from outside; ./check exports DEMETER_VERIF=1 for uniformity",
        "baseline_off_cmd": "/verif/tools/baseline.py",
        "source_commits": [],
        "add_only": True,
    },
    "engines": [{"name": "vf", "path": "/verif/vf", "serves_properties": sorted(CHECKS), "kind_free_text": "Hypothesis-driven generated search (programs-as-data state machines, exhaustive enumeration of small finite domains) against independent reference models; 16-process sharding; JSON replay files"}],
    "checks": checks,
    "notes": NOTES,
    "not_applicable": na,
}
json.dump(man, open(os.path.join(HERE, "MANIFEST.json"), "w"), indent=1)
print("checks:", [c["property_id"] for c in checks], "not_applicable:", [n["property_id"] for n in na])
