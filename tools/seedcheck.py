#!/venv/bin/python
"""Confirm a seeded change and run checks against it, on a scratch copy of /repo outside /repo and /verif.

usage: tools/seedcheck.py <dir with patch.diff, demo.py> [--props C06,C07] [--no-tests] [--tier quick] [--seed N]

1. copy /repo's working tree (without .git) to /tmp/vfseed-*/repo
2. demo.py on the pristine copy must exit 0
3. apply patch.diff; demo.py must exit non-zero
4. (unless --no-tests) the repository's test suite on the patched copy must still pass every BASELINE stable test
5. run ./check <prop> --tier quick with DEMETER_SRC pointing at the patched copy; report caught (exit 1) / MISSED
The scratch copy is removed at the end.
"""
import argparse, json, os, shutil, subprocess, sys, tempfile, time, xml.etree.ElementTree as ET

HERE = os.path.dirname(os.path.dirname(os.path.abspath(__file__)))
ap = argparse.ArgumentParser()
ap.add_argument("dir")
ap.add_argument("--props", default="")
ap.add_argument("--no-tests", action="store_true")
ap.add_argument("--tier", default="quick")
ap.add_argument("--seed", default="1")
ap.add_argument("--scale", default="1")
args = ap.parse_args()
d = os.path.abspath(args.dir)
meta = {}
if os.path.exists(os.path.join(d, "meta.json")):
    meta = json.load(open(os.path.join(d, "meta.json")))
props = [p for p in args.props.split(",") if p] or meta.get("checks", [meta.get("property")] if meta.get("property") else [])
scratch = tempfile.mkdtemp(prefix="vfseed-", dir="/tmp")
tree = os.path.join(scratch, "repo")
out = {"dir": d}
try:
    shutil.copytree("/repo", tree, ignore=shutil.ignore_patterns(".git", "__pycache__", "*.egg-info"))
    env = dict(os.environ, PYTHONPATH=tree, PYTHONDONTWRITEBYTECODE="1", HOME=scratch)
    demo = os.path.join(d, "demo.py")
    if os.path.exists(demo):
        p = subprocess.run(["/venv/bin/python", demo], cwd=tree, env=env, capture_output=True, text=True)
        out["demo_clean"] = p.returncode
    p = subprocess.run(["git", "apply", "--whitespace=nowarn", os.path.join(d, "patch.diff")], cwd=tree, capture_output=True, text=True)
    if p.returncode != 0:
        p = subprocess.run(["patch", "-p1", "-i", os.path.join(d, "patch.diff")], cwd=tree, capture_output=True, text=True)
    out["apply"] = p.returncode
    if p.returncode != 0:
        print(p.stdout, p.stderr)
    if os.path.exists(demo):
        p = subprocess.run(["/venv/bin/python", demo], cwd=tree, env=env, capture_output=True, text=True)
        out["demo_patched"] = p.returncode
        out["demo_tail"] = (p.stdout + p.stderr)[-300:]
    if not args.no_tests:
        base = json.load(open("/root/.vp/BASELINE.json"))
        xml = os.path.join(scratch, "junit.xml")
        e2 = dict(env)
        e2.pop("DEMETER_VERIF", None)
        subprocess.run(["/venv/bin/python", "-m", "pytest", "-q", "-p", "no:cacheprovider", "--timeout=900", "--continue-on-collection-errors", f"--junitxml={xml}"], cwd=tree, env=e2, stdout=subprocess.DEVNULL, stderr=subprocess.DEVNULL)
        passed = set()
        for tc in ET.parse(xml).getroot().iter("testcase"):
            if not any(ch.tag in ("failure", "error", "skipped") for ch in tc):
                passed.add(f"{tc.get('classname')}::{tc.get('name')}")
        missing = [t for t in base["stable_pass"] if t not in passed]
        out["tests_missing"] = missing
    res = {}
    for pr in props:
        t0 = time.time()
        e3 = dict(os.environ, DEMETER_SRC=tree, VERIF_SEED=args.seed, VF_SCALE=args.scale, VF_NO_EVIDENCE="1", VF_REPLAY_DIR=scratch)
        p = subprocess.run([os.path.join(HERE, "check"), pr, "--tier", args.tier], env=e3, capture_output=True, text=True)
        det = [l[:200] for l in p.stdout.splitlines() if l.startswith("DETAIL")][:2]
        res[pr] = {"rc": p.returncode, "verdict": {0: "MISSED", 1: "caught", 2: "HARNESS-ERROR"}.get(p.returncode, "?"), "wall": round(time.time() - t0), "detail": det}
        if p.returncode == 2:
            print(p.stdout[-2000:], p.stderr[-2000:])
    out["checks"] = res
finally:
    shutil.rmtree(scratch, ignore_errors=True)
print(json.dumps(out, indent=1))
