NOTES = ("Every check: ./check <ID> --tier quick|thorough; VERIF_SEED selects the Hypothesis seeds; evidence/<ID>.json is rewritten "
         "by every run; replays/ holds shrunk failing cases; known_findings.json lists recorded and fixed defects.")
NOT_APPLICABLE = {}
CHECKS = {
 "C06": {
  "technique": "exhaustive enumeration of all ticks + Hypothesis-drawn sqrt prices against a precision-100 reference and an integer floor oracle",
  "text": "All 1,774,545 ticks are enumerated against an independent high-precision reference (closeness bound, strict monotonicity, boundary constants); the floor inverse is decided with integers for 3 sqrt prices per tick interval (every 13th interval in quick, all in thorough) plus drawn prices; usable-tick rounding over all ticks x 4 spacings; price<->tick round trips over drawn ticks x decimals x orientation. Exhaustive for the forward map and rounding, sampled for sqrt prices between boundaries (domain ~2^160).",
  "note": "Trusts Python's decimal module at precision 100 for the reference; the floor oracle uses the implementation's own tick->ratio map, tied to the reference by the forward part.",
 },
 "C07": {
  "technique": "Hypothesis generated inputs by boundary class against exact Fraction closed forms; deposit/withdraw round trip through the real market",
  "text": "Generated (price class x range class x decimals x amounts) cases are checked against exact rational re-derivations of the LiquidityAmounts formulas: no over-spend, maximality up to the stated integer-rounding slack, one-sidedness by region, non-negativity, monotonicity, proportionality, closed-form agreement at 1e-30; plus add/remove round trips through UniLpMarket in both orientations with default and explicit sqrt prices. Sampled, not exhaustive: the domain is ~2^160 prices x 1.5e12 tick pairs.",
  "note": "Trusts fractions.Fraction arithmetic and the tick->ratio map (verified by C06) to place prices on range boundaries.",
 },
 "C20": {
  "technique": "Hypothesis generated net-value series by shape class against pure-Python definitions (O(n^2) drawdown, fsum std/cov), metamorphic rescaling, cross-form agreement",
  "text": "Generated positive series (2..400 points, seven shape classes including 'largest absolute != largest relative decline' and never-falling) x interval x benchmark are compared with brute-force definitions of drawdown, returns in all input forms, volatility, Sharpe, alpha/beta, and with performance_metrics. Sampled exploration; float tolerance stated in the evidence.",
  "note": "Trusts Python float arithmetic and math.fsum for the definitions; tolerance widened by the conditioning of x**(365/days).",
 },
 "C18": {
  "technique": "Hypothesis generated (bar grid x trigger specifications) run through the real Actuator loop, compared with a brute-force set denotation; retirement checked per bar",
  "text": "Every trigger kind with generated parameters (on, beside and outside the grid; duplicates; overlapping/empty ranges; delays; immediate; coinciding periods; late registration; kwargs) is executed by Actuator.run over grids with interval 1/2/5/15/60 min and 1..300 bars; firing sets, once-per-bar, kwargs and retirement are compared with an independent denotation. Sampled exploration of an unbounded parameter space.",
  "note": "Denotation of Period(s) triggers is defined for periods/delays that are multiples of the bar interval; trusts the integer bar-grid computation (also checked against the visited bars).",
 },
}
