"""Frozen-market execution of a generated program on a multi-market universe (shared by C03 and C04).

All markets are put on the rows of one bar (external prices agree with the pools' own prices), then the program's
operations run one after another against the real markets; `step` yields, per operation, the state before and after."""
from __future__ import annotations

import copy
from decimal import Decimal

from vf import multi

D = Decimal
HELPERS = {("uni", "add_value"), ("uni", "rebalance"), ("uni", "remove_all"), ("squni", "add_value"), ("squni", "rebalance"), ("squni", "remove_all")}


def build(case, observers=(), ensure_tokens=False):
    from demeter._typing import USD

    u = multi.Universe(case, observers, actuator=False)
    u.broker.quote_token = USD if case["quote"] == "USD" else u.tok[case["quote"]]
    # what check_market() does before a backtest: the pool tokens of a market have a wallet entry (possibly zero)
    # (valuation needs it: SqueethMarket.get_market_balance reads the oSQTH balance; atomicity checks run without it, so that
    # rejected calls also meet wallets that have never held a token)
    for key, mk in u.m.items() if ensure_tokens else ():
        toks = [mk.base_token, mk.quote_token] if key in ("uni", "squni") else [mk.long_token, mk.short_token] if key == "gm" else []
        for t in toks:
            if t not in u.broker.assets:
                u.broker.set_balance(t, 0)
    u.freeze(0)
    return u


def snapshot(u):
    s = multi.raw_state(u)
    s["wallet"] = {k: v for k, v in s["wallet"].items() if v != 0}  # a token with a zero balance is the same as no entry
    s["_books"] = multi.visible_books(u)
    s["_nact"] = len(u.static_actions)
    if "aave" in u.m:
        # derived views a user reads right after a (rejected) call: they must describe the same state as before
        a = u.m["aave"]
        s["_views"] = {"hf": a.health_factor, "supplies_value": {t.name: v for t, v in a.supplies_value.items()}, "collateral_value": {t.name: v for t, v in a.collateral_value.items()},
                       "borrows_value": {t.name: v for t, v in a.borrows_value.items()}, "supplies": {t.name: (x.amount, bool(x.collateral)) for t, x in a.supplies.items()},
                       "borrows": {t.name: x.amount for t, x in a.borrows.items()}}
    s["_last_tick"] = {k: (None if m.last_tick is None or m.last_tick != m.last_tick else int(m.last_tick)) for k, m in u.m.items() if k in ("uni", "squni")}
    return s


def net_value(u):
    return u.broker.get_account_status(u.prices).net_value


def diff(a, b, path=""):
    """first difference between two snapshots as a readable path"""
    if isinstance(a, dict) and isinstance(b, dict):
        for k in sorted(set(a) | set(b), key=str):
            if k not in a:
                return f"{path}[{k}] appeared: {b[k]}"
            if k not in b:
                return f"{path}[{k}] vanished (was {a[k]})"
            if a[k] != b[k]:
                return diff(a[k], b[k], f"{path}[{k}]")
        return None
    if isinstance(a, (list, tuple)) and isinstance(b, (list, tuple)) and len(a) == len(b):
        for i, (x, y) in enumerate(zip(a, b)):
            if x != y:
                return diff(x, y, f"{path}[{i}]")
        return None
    return None if a == b else f"{path}: {a} -> {b}"


def step(u, op):
    """run one op; returns (pre, post, outcome, new_actions)"""
    pre = snapshot(u)
    try:
        r = multi.run_op(u, op)
        out = ("skip", None) if isinstance(r, str) and r == "skip" else ("ok", r)
    except Exception as e:  # noqa: a rejected user operation is an outcome
        out = ("rejected", e)
    post = snapshot(u)
    return pre, post, out, u.static_actions[pre["_nact"]:]


def snap_sub(bal, amt):
    """Asset.sub's documented behaviour: differences below 1e-5 relative are snapped to zero"""
    base = bal if bal != 0 else amt
    if base == 0:
        return bal
    if abs((bal - amt) / base) < D("0.00001"):
        return D(0)
    return bal - amt


def replay_uni_actions(u, key, pre, actions):
    """pre-state advanced by exactly the recorded constituent transactions of a uniswap helper"""
    st = copy.deepcopy({"wallet": pre["wallet"], key: pre[key]})
    m = u.m[key]
    base, quote = m.base_token.name, m.quote_token.name
    t0q = m.pool_info.is_token0_quote
    wal = st["wallet"]

    def to01(b, q):
        return (q, b) if t0q else (b, q)

    for a in actions:
        n = type(a).__name__
        if n == "SwapAction":
            f, t = a.amount.unit, a.to_amount.unit
            wal[f] = snap_sub(wal.get(f, D(0)), D(a.amount))
            wal[t] = wal.get(t, D(0)) + D(a.to_amount)
        elif n == "BuyAction":
            wal[quote] = snap_sub(wal.get(quote, D(0)), D(a.quote_change))
            wal[base] = wal.get(base, D(0)) + D(a.base_change)
        elif n == "SellAction":
            wal[base] = snap_sub(wal.get(base, D(0)), D(a.base_change))
            wal[quote] = wal.get(quote, D(0)) + D(a.quote_change)
        elif n == "AddLiquidityAction":
            wal[base] = snap_sub(wal.get(base, D(0)), D(a.base_amount_actual))
            wal[quote] = snap_sub(wal.get(quote, D(0)), D(a.quote_amount_actual))
            k = (a.position.lower_tick, a.position.upper_tick)
            liq, p0, p1, tr = st[key].get(k, (0, D(0), D(0), False))
            st[key][k] = (liq + a.liquidity, p0, p1, tr)
        elif n == "RemoveLiquidityAction":
            k = (a.position.lower_tick, a.position.upper_tick)
            liq, p0, p1, tr = st[key][k]
            g0, g1 = to01(D(a.base_amount), D(a.quote_amount))
            st[key][k] = (liq - a.removed_liquidity, p0 + g0, p1 + g1, tr)
        elif n == "CollectFeeAction":
            k = (a.position.lower_tick, a.position.upper_tick)
            liq, p0, p1, tr = st[key][k]
            g0, g1 = to01(D(a.base_amount), D(a.quote_amount))
            wal[m.token0.name] = wal.get(m.token0.name, D(0)) + g0
            wal[m.token1.name] = wal.get(m.token1.name, D(0)) + g1
            p0, p1 = p0 - g0, p1 - g1
            if liq == 0 and p0 == 0 and p1 == 0:
                del st[key][k]
            else:
                st[key][k] = (liq, p0, p1, tr)
        else:
            raise ValueError(n)
    return st
