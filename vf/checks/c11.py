"""C11 — Aave borrow / withdraw limits, risk figures and the max-borrow / max-withdraw helpers follow the v3 definitions."""
from decimal import Decimal
from fractions import Fraction

from vf import aave
from vf.aave import INF, Ref, close, fr
from vf.engine import Ctx, derive_seed, replay_body, run_given
from vf.gen.aave import st_case

PROPERTY = "C11"
RULE = (
    "generated Aave portfolios (2-4 tokens with generated LTV <= LT < 1 and LT x (1 + bonus) <= 1, collateral and "
    "non-collateral supplies, several debts) reached by real operations and re-priced by generated price / index moves, "
    "so any health factor occurs; requests at the frontier: f x max-borrow helper and f x max-withdraw helper for f in "
    "{0.1 .. 0.999, 1 - 1e-10, 1, 1 + 1e-8, 1.01, 2}, fractions of holdings, absolute amounts, flag changes. Every "
    "accepted / rejected outcome is compared with the Aave v3 conditions in exact rationals (soundness always; "
    "completeness when the condition holds with 0.1% margin). Non-trivial = a borrow / withdraw / flag request within "
    "1% of its limit on an account with >= 2 collateral tokens or >= 2 debts."
)
ASSUMPTIONS = [
    "risk parameters satisfy Aave's own validation (LTV <= LT < 1); amounts are non-negative (a negative helper answer is not requested)",
    "completeness is claimed only with 0.1% margin in value terms; exactly-at-the-limit requests may go either way",
    "max-helper claims are made for accounts with collateral and a positive helper answer; 'beyond the limit is rejected' only for answers above 1e-9 tokens and above 200 smallest token units (the helper keeps up to one unit of slack, and 35-digit arithmetic cannot resolve 1% of dust)",
]
MIN_NONTRIVIAL = {"quick": 500, "thorough": 10000}
REQUIRED_LABELS = ["borrow.accepted", "borrow.rejected.sound", "withdraw.accepted.collateral.debt", "withdraw.rejected.hf", "flag.off.accepted", "flag.off.rejected", "helper.maxborrow.accepted", "helper.maxwithdraw.accepted", "helper.maxwithdraw.beyond.rejected", "helper.maxborrow.beyond.rejected", "hf.below1.seen"]

EPS = Fraction(1, 10**26)
MARGIN = Fraction(1001, 1000)
SIGNIFICANT = Decimal("1e-9")  # "1% beyond the limit" is only meaningful for helper answers above arithmetic dust


class Obs(aave.Observer):
    def __init__(self, ctx, case):
        self.ctx, self.case = ctx, case
        self.labels = set()
        self.nontrivial = False
        self.pre = None

    def bar_start(self, w, i):
        self.views(w, "newbar")

    def views(self, w, where):
        ctx, case, m = self.ctx, self.case, w.market
        r = Ref(w)
        hf = ctx.guarded("view.health_factor", case, lambda: m.health_factor)
        if hf is not None:
            ctx.check(close(hf, r.hf, EPS), "figure.health_factor", lambda: f"health factor {hf} vs definition {r.hf if r.hf == INF else float(r.hf)} after {where}", case)
        ml = ctx.guarded("view.max_ltv", case, lambda: m.max_ltv)
        if ml is not None:
            ctx.check(close(ml, r.max_ltv, EPS), "figure.max_ltv", lambda: f"max ltv {ml} vs definition {r.max_ltv if r.max_ltv == INF else float(r.max_ltv)} after {where}", case)
        lt = ctx.guarded("view.liquidation_threshold", case, lambda: m.liquidation_threshold)
        if lt is not None:
            ctx.check(close(lt, r.lt, EPS), "figure.liquidation_threshold", lambda: f"liquidation threshold {lt} vs definition {r.lt if r.lt == INF else float(r.lt)} after {where}", case)
        if r.B > 0 and r.hf < 1:
            self.labels.add("hf.below1.seen")
        return r

    def before_op(self, w, opamt):
        op, amount = opamt
        r0 = Ref(w)
        helper = None
        kind = op[0]
        # what the helpers answer in this state (for requests phrased relative to them)
        if kind == "withdraw" and op[2] and op[2][0] == "maxwithdraw":
            helper = w.market.get_max_withdraw_amount(w.tok[op[1]])
        if kind == "borrow" and (op[2] is None or op[2][0] == "maxborrow"):
            try:
                helper = w.market.get_max_borrow_amount(w.tok[op[1]])
            except Exception:  # noqa: no collateral at all -> no helper claim
                helper = None
        self.pre = (r0, helper)

    def after_op(self, w, opamt, out):
        op, amount = opamt
        ctx, case = self.ctx, self.case
        kind = op[0]
        if kind == "read":
            return
        r0, helper = self.pre
        r1 = self.views(w, kind)
        ok = out[0] == "ok"
        n = op[1]
        par = w.par[n]
        LT = Fraction(par["lt"], 10000)
        many = len(r0.col_val) >= 2 or len(r0.bor_val) >= 2
        healthy0 = r0.B == 0 or r0.hf >= 1

        def why():
            return f"{type(out[1]).__name__}: {out[1]}" if not ok else "accepted"

        # ---- after every accepted user operation an account with debt has HF >= 1
        if ok and healthy0 and r1.B > 0:
            ctx.check(r1.hf >= 1 - EPS, f"hf_after.{kind}", lambda: f"accepted {kind} {n} {amount} leaves health factor {float(r1.hf)} (before: {r0.hf if r0.hf == INF else float(r0.hf)})", case)

        if kind == "borrow":
            if amount is None:
                if not ok:
                    self.labels.add("borrow.none.rejected")
                    return
                amount = w.actions[-1].amount
            if amount < 0:
                self.labels.add("negative.request")
                return
            v = fr(amount) * w.px(n)
            cover = r0.ltv_sum  # collateral x weighted max LTV
            if ok:
                self.labels.add("borrow.accepted")
                ctx.check(par["borrow"], "borrow.sound.flag", lambda: f"borrow of {n} accepted although borrowing is disabled for it", case)
                ctx.check(r0.C > 0, "borrow.sound.nocollateral", lambda: "borrow accepted without collateral", case)
                ctx.check(r0.B + v <= cover * (1 + EPS), "borrow.sound.ltv", lambda: f"borrow {amount} {n} accepted: debt {float(r0.B)} + {float(v)} exceeds collateral x maxLTV {float(cover)}", case)
            else:
                holds = par["borrow"] and r0.C > 0 and cover > 0 and (r0.B == 0 or r0.hf >= MARGIN) and (r0.B + v) * MARGIN <= cover
                ctx.check(not holds, "borrow.complete", lambda: f"borrow {amount} {n} rejected ({why()}) although debt {float(r0.B)} + {float(v)} is covered by {float(cover)} with margin, HF {r0.hf if r0.hf == INF else float(r0.hf)}", case)
                self.labels.add("borrow.rejected.sound")
            if cover > 0 and Fraction(99, 100) * cover <= r0.B + v <= Fraction(101, 100) * cover and many:
                self.nontrivial = True
            # helper claims
            if helper is not None and r0.C > 0 and helper > 0 and par["borrow"] and op[2] is not None and op[2][0] == "maxborrow":
                f = Decimal(op[2][1])
                if f == 1:
                    ctx.check(ok, "helper.maxborrow.rejected", lambda: f"get_max_borrow_amount({n}) = {helper} is itself rejected ({why()})", case)
                    self.labels.add("helper.maxborrow.accepted")
                elif f >= Decimal("1.0202") and helper > SIGNIFICANT:
                    ctx.check(not ok, "helper.maxborrow.beyond", lambda: f"{f} x get_max_borrow_amount({n}) = {amount} is beyond the limit but accepted", case)
                    self.labels.add("helper.maxborrow.beyond.rejected")
            if op[2] is None and helper is not None and r0.C > 0 and helper > 0 and par["borrow"]:
                self.labels.add("helper.maxborrow.accepted")

        elif kind == "withdraw":
            have = r0.sup_amt.get(n)
            if amount is None:
                amount_f = have
            else:
                if amount < 0:
                    self.labels.add("negative.request")
                    return
                amount_f = fr(amount)
            flagged = r0.flag.get(n, False)
            if ok:
                self.labels.add("withdraw.accepted" + (".collateral" if flagged else "") + (".debt" if r0.B > 0 else ""))
                if r1.B > 0 and flagged:
                    ctx.check(r1.hf >= 1 - EPS, "withdraw.sound.hf", lambda: f"withdraw {amount} {n} accepted but health factor afterwards is {float(r1.hf)}", case)
            elif have is not None and amount_f is not None:
                hf_pred = INF if r0.B == 0 or not flagged else (r0.lt_sum - amount_f * w.px(n) * LT) / r0.B
                holds = 0 < amount_f <= have * (1 - Fraction(1, 10**20)) and (hf_pred == INF or hf_pred >= MARGIN)
                if amount is None:
                    holds = have > 0 and (hf_pred == INF or hf_pred >= MARGIN)
                ctx.check(not holds, "withdraw.complete", lambda: f"withdraw {amount} of {float(have)} {n} rejected ({why()}) although health factor afterwards would be {hf_pred if hf_pred == INF else float(hf_pred)}", case)
                if hf_pred != INF and hf_pred < 1:
                    self.labels.add("withdraw.rejected.hf")
            if have is not None and amount_f is not None and flagged and r0.B > 0 and many:
                hf_pred = (r0.lt_sum - amount_f * w.px(n) * LT) / r0.B
                if Fraction(99, 100) <= hf_pred <= Fraction(101, 100):
                    self.nontrivial = True
            # helper claims
            if helper is not None and r0.C > 0 and have is not None and op[2] is not None and op[2][0] == "maxwithdraw":
                ctx.check(fr(helper) <= have * (1 + EPS), "helper.maxwithdraw.exceeds_supply", lambda: f"get_max_withdraw_amount({n}) = {helper} exceeds the supplied {float(have)}", case)
                f = Decimal(op[2][1])
                if helper > 0:
                    if f == 1:
                        ctx.check(ok, "helper.maxwithdraw.rejected", lambda: f"get_max_withdraw_amount({n}) = {helper} (supplied {float(have)}) is itself rejected ({why()})", case)
                        self.labels.add("helper.maxwithdraw.accepted")
                    elif f >= Decimal("1.01") and fr(helper) <= have * (1 + EPS) and helper > max(SIGNIFICANT, 200 * Decimal(1).scaleb(-w.tok[n].decimal)):
                        ctx.check(not ok, "helper.maxwithdraw.beyond", lambda: f"{f} x get_max_withdraw_amount({n}) = {amount} is beyond the limit but accepted", case)
                        self.labels.add("helper.maxwithdraw.beyond.rejected")

        elif kind == "flag":
            new = op[2]
            if n not in r0.flag:
                return
            old = r0.flag[n]
            if new == old:
                ctx.check(ok, "flag.noop", lambda: f"setting the collateral flag of {n} to its current value was rejected ({why()})", case)
                return
            if not new:
                hf_pred = INF if r0.B == 0 else (r0.lt_sum - r0.sup_val[n] * LT) / r0.B
                if ok:
                    self.labels.add("flag.off.accepted")
                    if r1.B > 0:
                        ctx.check(r1.hf >= 1 - EPS, "flag.sound.hf", lambda: f"collateral flag of {n} switched off although health factor afterwards is {float(r1.hf)}", case)
                else:
                    self.labels.add("flag.off.rejected")
                    ctx.check(not (hf_pred == INF or hf_pred >= MARGIN), "flag.complete", lambda: f"switching off collateral {n} rejected ({why()}) although health factor afterwards would be {hf_pred if hf_pred == INF else float(hf_pred)}", case)
                if hf_pred != INF and Fraction(99, 100) <= hf_pred <= Fraction(101, 100) and many:
                    self.nontrivial = True
            else:
                if par["coll"]:
                    ctx.check(ok, "flag.complete.on", lambda: f"switching on collateral {n} rejected ({why()})", case)
                self.labels.add("flag.on")
        else:
            self.labels.add(f"{kind}.{'accepted' if ok else 'rejected'}")


def body(case, ctx: Ctx):
    obs = Obs(ctx, case)
    w = aave.World(case, obs)
    w.run()
    ctx.case(case, obs.nontrivial, sorted(obs.labels))


def shards(tier, seed):
    n = 300 if tier == "quick" else 6000
    return [{"sub": "limits", "idx": i, "n": n, "seed": derive_seed(seed, PROPERTY, "limits", i)} for i in range(16)]


def run_shard(spec):
    ctx = Ctx(PROPERTY, spec["sub"])
    v = run_given(ctx, st_case("limits", max_bars=6, max_ops=6), body, spec["n"], spec["seed"])
    return ctx.result(v)


def replay(rec):
    return replay_body(PROPERTY, body, rec["case"], rec["sub"])
