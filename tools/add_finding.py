#!/venv/bin/python
"""Append an entry to known_findings.json (maintenance helper, never called by a check).
usage: tools/add_finding.py fixed|known PROP COMMIT SIGNATURE "what" "line-summary" [replay]"""
import json, os, sys
HERE = os.path.dirname(os.path.dirname(os.path.abspath(__file__)))
st, prop, commit, sig, what, line = sys.argv[1:7]
rep = sys.argv[7] if len(sys.argv) > 7 else None
p = os.path.join(HERE, "known_findings.json")
d = json.load(open(p))
e = {"status": st, "property": prop, "commit": None if commit == "-" else commit, "signature": sig, "what": what,
     "line": (f"fixed: property={prop} {commit} {line}" if st == "fixed" else f"KNOWN-FINDING: property={prop} {line}")}
if rep:
    e["replay"] = rep
d["findings"].append(e)
json.dump(d, open(p, "w"), indent=1)
print("added", e["line"])
