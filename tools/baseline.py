#!/venv/bin/python
"""Run the repository's pinned test suite (guard off) and compare with /root/.vp/BASELINE.json stable_pass."""
import json, os, subprocess, sys, tempfile, xml.etree.ElementTree as ET

base = json.load(open("/root/.vp/BASELINE.json"))
out = tempfile.mkdtemp(prefix="vfbase")
xml = os.path.join(out, "junit.xml")
env = dict(os.environ)
env.pop("DEMETER_VERIF", None)
subprocess.run(
    ["/venv/bin/python", "-m", "pytest", "-ra", "-q", "-p", "no:cacheprovider", "--timeout=900",
     "--continue-on-collection-errors", f"--junitxml={xml}"], cwd="/repo", env=env,
    stdout=subprocess.DEVNULL, stderr=subprocess.DEVNULL)
passed = set()
for tc in ET.parse(xml).getroot().iter("testcase"):
    if not any(ch.tag in ("failure", "error", "skipped") for ch in tc):
        passed.add(f"{tc.get('classname')}::{tc.get('name')}")
missing = [t for t in base["stable_pass"] if t not in passed]
import shutil
shutil.rmtree(out, ignore_errors=True)
subprocess.run(["git", "-C", "/repo", "status", "--short"])
print(f"baseline: {len(base['stable_pass']) - len(missing)}/{len(base['stable_pass'])} stable tests pass; total passed {len(passed)}")
for m in missing:
    print("MISSING", m)
sys.exit(1 if missing else 0)
