"""Reference tick math, independent of demeter. R(t) = sqrt(1.0001)^t * 2^96 in high-precision Decimal."""
from decimal import Decimal, Context, ROUND_HALF_EVEN

MIN_TICK = -887272
MAX_TICK = 887272
MIN_SQRT_RATIO = 4295128739
MAX_SQRT_RATIO = 1461446703485210103287273052203988822378723970342

CTX = Context(prec=100, rounding=ROUND_HALF_EVEN, Emax=999999, Emin=-999999)
Q96 = Decimal(2**96)
LN_BASE = CTX.ln(Decimal("1.0001"))
SQRT_BASE = CTX.sqrt(Decimal("1.0001"))


def ratio_at(t: int) -> Decimal:
    """exp(t/2 * ln 1.0001) * 2^96 at precision 100 (independent anchor)."""
    e = CTX.divide(CTX.multiply(LN_BASE, Decimal(t)), Decimal(2))
    return CTX.multiply(CTX.exp(e), Q96)


def ratios(a: int, b: int):
    """Yield (t, R(t)) for t in [a, b) by an incremental product from an exact anchor (re-anchored every 4096)."""
    r = None
    for t in range(a, b):
        if r is None or (t - a) % 4096 == 0:
            r = ratio_at(t)
        else:
            r = CTX.multiply(r, SQRT_BASE)
        yield t, r


def abs_bound(t: int, r: Decimal) -> Decimal:
    """Error bound stated by the property: < 1 for t <= 0, plus relative 8*1.0001^(t/2)/2^128 for t > 0."""
    if t <= 0:
        return Decimal(1)
    rel = CTX.divide(CTX.multiply(Decimal(8), CTX.divide(r, Q96)), Decimal(2**128))
    return CTX.add(Decimal(1), CTX.multiply(r, rel))
