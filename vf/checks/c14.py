"""C14 — Squeeth vaults: 150% collateral rule at the 7-minute geometric TWAP, liquidation amounts, exact movements."""
import math
from decimal import Decimal

import pandas as pd
from hypothesis import strategies as st

from vf import world
from vf.engine import Ctx, derive_seed, replay_body, run_given

PROPERTY = "C14"
RULE = (
    "timestamped Squeeth frames (1-14 rows spaced 1, 2 or 5 minutes; ETH price, oSQTH/ETH price and normalisation-factor paths with jumps, "
    "flats and drifts; the TWAP window shorter than 7 rows at the start) with the oSQTH/WETH pool at the same prices; vault "
    "programs (open / deposit / mint with generated collateral ratios from 1.2x to 3x of the limit, burn and withdraw, LP "
    "positions minted around the price and lent to / taken back from vaults) followed bar by bar through update(); every "
    "step validated against the reference (geometric TWAP, 3/2 rule, 0.5 ETH minimum, LP-first liquidation with 2% bounty, "
    "half / all rule with 10% bonus capped at the collateral). Non-trivial = a vault with debt observed over >= 2 bars "
    "with different TWAP, or a liquidation."
)
ASSUMPTIONS = [
    "TWAP arithmetic is floating point in the code: compared at 1e-9 relative; acceptance decisions within 1e-7 of the limit are not asserted",
    "the oSQTH/WETH pool has token0 = WETH and is quoted in WETH or in oSQTH; LP token amounts are the closed forms of the position's current liquidity at the pool price",
    "completeness (margin 0.1%) is asserted for open_deposit_mint, burn_and_withdraw and withdraw_uni_position only when the wallet covers the operation",
]
MIN_NONTRIVIAL = {"quick": 3000, "thorough": 60000}
REQUIRED_LABELS = ["mint.accepted", "mint.rejected.unsafe", "withdraw.accepted", "withdraw.rejected", "lp.deposited", "lp.withdraw.accepted", "liquidation.plain.half", "liquidation.plain.full", "liquidation.lp_first", "liquidation.capped", "twap.short_window", "twap.full_window", "safe.not_liquidated", "dust.rejected", "lp.pending", "twap.coarse_rows", "lp.read", "path.eth_flat", "ratio.view", "open.by_rate", "pool_quote.osqth"]

D = Decimal
SCALE = D(10000)


def twap(xs):
    return math.exp(sum(math.log(float(x)) for x in xs) / len(xs))


@st.composite
def st_case(draw):
    n = draw(st.integers(1, 14))
    eth = D(draw(st.integers(800, 4000)))
    osq = D(draw(st.integers(400, 2500))) / D(10000)  # ETH per oSQTH
    nf = D(draw(st.integers(2000, 9000))) / D(10000)
    rows = []
    # 'eth_flat': ETH price and normalisation factor stand still (so the ETH TWAP and the index price do too) while the
    # pool's oSQTH price keeps moving: an LP collateral changes its composition and value at an unchanged index
    path_mode = draw(st.sampled_from(["mixed", "mixed", "mixed", "eth_flat"]))
    for i in range(n):
        if i and path_mode == "eth_flat":
            osq = (osq * draw(st.sampled_from([1000, 995, 990, 970, 930, 1010, 1040])) / 1000).quantize(D("0.00000001"))
            rows.append({"eth": str(eth), "osq": str(osq), "nf": str(nf)})
            continue
        if i:
            mv = draw(st.sampled_from(["flat", "flat", "drift", "jump_up", "jump_down"]))
            f = {"flat": 1000, "drift": draw(st.integers(990, 1010)), "jump_up": draw(st.integers(1050, 1600)), "jump_down": draw(st.integers(600, 950))}[mv]
            eth = (eth * f / 1000).quantize(D("0.01"))
            # oSQTH/ETH follows ETH roughly (mark ~ index) with its own noise
            osq = (osq * f / 1000 * draw(st.integers(970, 1030)) / 1000).quantize(D("0.00000001"))
            nf = (nf * D(draw(st.sampled_from([1000000, 999990, 999000])) ) / 1000000).quantize(D("0.0000000001"))
        rows.append({"eth": str(eth), "osq": str(osq), "nf": str(nf)})
    ops = []
    for b in range(n):
        for _ in range(draw(st.integers(0, 3)) if b else draw(st.integers(1, 4))):
            k = draw(st.sampled_from(["open", "open", "open_rate", "open_lp", "deposit", "mint", "burn_withdraw", "burn_withdraw", "lp_add", "lp_add", "lp_shrink", "lp_deposit", "lp_withdraw", "lp_read"]))
            v = draw(st.integers(0, 2))
            if k in ("open", "open_lp", "mint"):
                ops.append([b, k, v, draw(st.sampled_from(["0.4", "0.5", "1", "3", "20"])), draw(st.sampled_from(["0", "0.5", "0.9", "0.999", "0.9999999", "1.0000001", "1.001", "1.2"]))])
            elif k == "open_rate":
                ops.append([b, k, v, draw(st.sampled_from(["0.4", "0.6", "1", "3", "20"])), draw(st.sampled_from(["1.2", "1.499", "1.5000001", "1.6", "2", "3.5"]))])
            elif k == "deposit":
                ops.append([b, k, v, draw(st.sampled_from(["0", "0.3", "2", "1000"]))])
            elif k == "burn_withdraw":
                ops.append([b, k, v, draw(st.sampled_from(["0", "0.3", "1", "2"])), draw(st.sampled_from(["0", "0.2", "0.9", "1", "5"]))])
            elif k == "lp_add":
                ops.append([b, k, draw(st.integers(-20, 5)), draw(st.integers(1, 25)), draw(st.sampled_from(["0.5", "3"]))])
            elif k == "lp_shrink":
                ops.append([b, k, draw(st.integers(0, 2)), draw(st.sampled_from(["0.3", "0.5", "0.9"]))])
            elif k == "lp_read":
                ops.append([b, k, draw(st.integers(0, 2))])
            else:
                ops.append([b, k, v, draw(st.integers(0, 2))])
    if draw(st.integers(0, 3)) == 0:
        # dependent motif: mint an LP position, look at it, take most of it out again, then borrow against what is left
        b = draw(st.integers(0, n - 1))
        motif = [[b, "lp_add", draw(st.integers(-12, -1)), draw(st.integers(14, 25)), "3"], [b, "lp_read", 0], [b, "lp_shrink", 0, draw(st.sampled_from(["0.5", "0.9"]))],
                 [b, "open_lp", 0, draw(st.sampled_from(["0.4", "0.5", "1"])), draw(st.sampled_from(["0.9", "0.999", "1.001"]))]]
        at = next((j for j, o in enumerate(ops) if o[0] > b), len(ops))
        ops[at:at] = motif
    return {"quote": draw(st.sampled_from(["weth", "weth", "osqth"])), "path_mode": path_mode, "rows": rows, "ops": ops, "weth": draw(st.sampled_from(["10", "100"])), "osqth": draw(st.sampled_from(["0", "50", "2000"])), "step": draw(st.sampled_from([1, 1, 1, 2, 5]))}


class W:
    def __init__(self, case):
        from demeter import Broker, MarketInfo, MarketTypeEnum, TokenInfo
        from demeter.squeeth.market import SqueethMarket
        from demeter.uniswap import UniLpMarket, UniV3Pool

        self.case = case
        self.weth, self.osqth = TokenInfo("weth", 18), TokenInfo("osqth", 18)
        self.actions = []
        self.broker = Broker(record_action_callback=self.actions.append)
        # the oSQTH/WETH pool market may be quoted in either token (WETH is the usual choice)
        self.q_osqth = case.get("quote") == "osqth"
        self.uni = UniLpMarket(MarketInfo("Uni"), UniV3Pool(self.weth, self.osqth, 0.3, self.osqth if self.q_osqth else self.weth))
        self.sq = SqueethMarket(MarketInfo("Squeeth", MarketTypeEnum.squeeth), self.uni)
        self.broker.add_market(self.uni)
        self.broker.add_market(self.sq)
        n = len(case["rows"])
        self.step = case.get("step", 1)  # minutes between rows (a frame resampled to a coarser bar interval)
        self.idx = pd.date_range(world.BASE_DAY, periods=n, freq=f"{self.step}min")
        self.sq.data = pd.DataFrame({"norm_factor": [D(r["nf"]) for r in case["rows"]], "WETH": [D(r["eth"]) for r in case["rows"]], "OSQTH": [D(r["osq"]) for r in case["rows"]]}, index=self.idx)
        self.broker.set_balance(self.weth, D(case["weth"]))
        self.broker.set_balance(self.osqth, D(case["osqth"]))
        self.vaults = []
        self.lps = []
        self.i = -1

    def set_bar(self, i):
        from demeter import MarketStatus
        from demeter.uniswap import UniswapMarketStatus

        self.i = i
        r = self.case["rows"][i]
        ts = self.idx[i]
        price = D(r["osq"])  # WETH per oSQTH: the pool's price with quote = WETH
        if self.q_osqth:
            price = 1 / price
        tick = self.uni.price_to_tick(price)
        self.uni.set_market_status(UniswapMarketStatus(timestamp=ts, data=pd.Series([D(0), D(0), D(10**24), tick, price], index=["inAmount0", "inAmount1", "currentLiquidity", "closeTick", "price"])), price=None)
        self.sq.set_market_status(MarketStatus(ts.to_pydatetime(), None), None)
        self.tick = tick

    # reference quantities of the current bar
    def win(self, col):
        lo = max(0, self.i - 6 // self.step)  # rows whose timestamp lies within the trailing 7 minutes
        return [self.case["rows"][j][col] for j in range(lo, self.i + 1)]

    def twap_eth(self):
        return twap(self.win("eth"))

    def twap_osq(self):
        return twap(self.win("osq"))

    def nf(self):
        return float(self.case["rows"][self.i]["nf"])

    def lp_amounts(self, pos):
        """(weth, osqth) held by an LP position incl. pending, from the pool market's own view (token0 = WETH)"""
        from vf.multi import uni_position_amounts

        p = self.uni.positions[pos]
        # closed forms from the position's current liquidity at the pool's price (not the market's own amount view,
        # which a vault check also goes through: a stale view there must not hide in the reference)
        a0, a1 = uni_position_amounts(self.uni.pool_info, self.uni.market_status.data.price, pos.lower_tick, pos.upper_tick, p.liquidity)
        return D(a0.numerator) / D(a0.denominator) + p.pending_amount0, D(a1.numerator) / D(a1.denominator) + p.pending_amount1

    def vault_ref(self, vk):
        """(collateral in ETH incl. LP at index price, debt in ETH) per the statement"""
        v = self.sq.vault[vk]
        coll = float(v.collateral_amount)
        lw = lo = 0.0
        if v.uni_nft_id is not None:
            w_, o_ = self.lp_amounts(v.uni_nft_id)
            lw, lo = float(w_), float(o_)
            coll += lw + lo * self.nf() * self.twap_eth() / 1e4
        debt = float(v.osqth_short_amount) * self.nf() * self.twap_eth() / 1e4
        return coll, debt, lw, lo

    def raw(self):
        return ({k.id: (v.collateral_amount, v.osqth_short_amount, v.uni_nft_id) for k, v in self.sq.vault.items()}, self.broker.assets[self.weth].balance, self.broker.assets[self.osqth].balance,
                {k: (p.liquidity, p.pending_amount0, p.pending_amount1, p.transferred) for k, p in self.uni.positions.items()})


def classify(coll, debt):
    """'safe' / 'unsafe' / 'dust' / 'edge' (edge: within 1e-7 of a limit -> not asserted)"""
    if debt == 0:
        return "safe"
    if abs(2 * coll - 3 * debt) <= 1e-7 * 3 * debt or abs(coll - 0.5) <= 1e-7:
        return "edge"
    if 2 * coll < 3 * debt:
        return "unsafe"
    if coll < 0.5:
        return "dust"
    return "safe"


def body(case, ctx: Ctx):
    from demeter.squeeth import VaultKey

    w = W(case)
    labels = set()
    nontrivial = False
    seen_twap = {}
    for i in range(len(case["rows"])):
        ctx.guarded("set_bar", case, w.set_bar, i)
        labels.add("twap.full_window" if i >= 6 // w.step else "twap.short_window")
        if w.step > 1:
            labels.add("twap.coarse_rows")
        # TWAP view against the geometric mean of the trailing window
        for tok, ref in ((w.weth, w.twap_eth()), (w.osqth, w.twap_osq())):
            got = ctx.guarded("twap", case, w.sq.get_twap_price, tok)
            if got is not None:
                ctx.check(abs(float(got) - ref) <= 1e-9 * ref, "twap.value", lambda: f"bar {i}: TWAP of {tok.name} = {got}, geometric mean of the trailing <= 7 rows = {ref}", case)
        for vk, v in w.sq.vault.items():
            if v.osqth_short_amount > 0:
                t = round(w.twap_eth(), 6)
                if vk.id in seen_twap and seen_twap[vk.id] != t:
                    nontrivial = True
                seen_twap.setdefault(vk.id, t)
        for op in [o for o in case["ops"] if o[0] == i]:
            k = op[1]
            pre = w.raw()
            nact = len(w.actions)
            wal_w, wal_o = pre[1], pre[2]
            must_accept = False
            try:
                if k in ("open", "open_lp", "mint"):
                    eth = D(op[3])
                    # osqth amount from the requested fraction of the limit: debt = eth / 1.5 at TWAP
                    vk = None
                    if k == "mint" and w.vaults:
                        vk = w.vaults[op[2] % len(w.vaults)]
                    lp = None
                    if k == "open_lp":
                        free = [p for p in w.lps if p in w.uni.positions and not w.uni.positions[p].transferred and w.uni.positions[p].liquidity > 0]
                        lp = free[0] if free else None
                    base_coll = float(eth) if k != "mint" else 0.0
                    if vk is not None:
                        base_coll += w.vault_ref(vk)[0] - (w.vault_ref(vk)[1] * 1.5)
                    if lp is not None:
                        lw_, lo_ = w.lp_amounts(lp)
                        base_coll += float(lw_) + float(lo_) * w.nf() * w.twap_eth() / 1e4
                    max_osq = max(base_coll, 0) / 1.5 * 1e4 / w.nf() / w.twap_eth()
                    total_coll = float(eth if k != "mint" else 0) + (w.vault_ref(vk)[0] if vk is not None else 0.0) + ((float(lw_) + float(lo_) * w.nf() * w.twap_eth() / 1e4) if lp is not None else 0.0)
                    must_accept = base_coll > 0 and D(op[4]) <= D("0.999") and (total_coll >= 0.5005 or D(op[4]) == 0 and (vk is None or w.sq.vault[vk].osqth_short_amount == 0)) and wal_w >= (eth if k != "mint" else 0) * D("1.0001") and not (k == "mint" and vk is None)
                    osq = D(repr(max_osq)) * D(op[4])
                    # "with margin" is meant against the vault's whole collateral: a vault already standing at the limit has no
                    # room whose 99.9% could be told from 100% in floating point
                    debt_after_ = (w.vault_ref(vk)[1] if vk is not None else 0.0) + float(osq) * w.nf() * w.twap_eth() / 1e4
                    must_accept = must_accept and 1.5 * debt_after_ <= total_coll * (1 - 1e-6)
                    ret = w.sq.open_deposit_mint(eth, osq, vk, lp) if k != "mint" else w.sq.open_deposit_mint(D(0), osq, vk, None)
                    tgt = ret[0]
                    if tgt not in w.vaults:
                        w.vaults.append(tgt)
                    ok, err = True, None
                    kind = "mint"
                elif k == "open_rate":
                    # the other public way to open a vault: collateral plus a target collateral ratio
                    eth, rate = D(op[3]), D(op[4])
                    must_accept = rate >= D("1.501") and eth >= D("0.5005") and wal_w >= eth * D("1.0001")
                    total_coll = float(eth)
                    ret = w.sq.open_deposit_mint_by_collat_rate(eth, rate)
                    tgt = ret[0]
                    w.vaults.append(tgt)
                    ok, err, kind = True, None, "mint"
                    labels.add("open.by_rate")
                    coll_, debt_, _, _ = w.vault_ref(tgt)
                    ctx.check(debt_ > 0 and abs(coll_ / debt_ - float(rate)) <= 1e-6 * float(rate), "mint.by_rate.ratio", lambda: f"bar {i} {op}: vault opened with {eth} ETH at target ratio {rate} holds collateral {coll_} over debt {debt_} = {coll_ / debt_ if debt_ else None}", case)
                elif k == "deposit":
                    if not w.vaults:
                        continue
                    tgt = w.vaults[op[2] % len(w.vaults)]
                    w.sq.deposit(tgt, D(op[3]))
                    ok, err, kind = True, None, "deposit"
                elif k == "burn_withdraw":
                    if not w.vaults:
                        continue
                    tgt = w.vaults[op[2] % len(w.vaults)]
                    v = w.sq.vault[tgt]
                    burn = v.osqth_short_amount * D(op[3])
                    wd = v.collateral_amount * D(op[4])
                    w.sq.burn_and_withdraw(tgt, burn, wd)
                    ok, err, kind = True, None, "withdraw"
                elif k == "lp_add":
                    sp = 60
                    lo_t = (w.tick // sp + op[2]) * sp
                    b_, q_ = (D(op[4]), D(op[4]) * 10) if w.q_osqth else (D(op[4]) * 10, D(op[4]))  # (base, quote) = oSQTH x 10, WETH
                    pos, _, _, _ = w.uni.add_liquidity_by_tick(lo_t, lo_t + op[3] * sp, b_, q_)
                    if pos not in w.lps:
                        w.lps.append(pos)
                    continue
                elif k == "lp_read":
                    # pure reads of the position views (a reader must never change what a later vault check sees)
                    if w.lps:
                        p_ = [p for p in w.lps if p in w.uni.positions]
                        if p_:
                            w.uni.get_position_amount(p_[op[2] % len(p_)])
                            w.uni.get_position_status(p_[op[2] % len(p_)])
                            w.uni.get_market_balance()
                            w.sq.get_market_balance()
                            labels.add("lp.read")
                    continue
                elif k == "lp_shrink":
                    # part of a free LP position's liquidity is removed without collecting: the position now carries pending amounts
                    free = [p for p in w.lps if p in w.uni.positions and not w.uni.positions[p].transferred and w.uni.positions[p].liquidity > 1]
                    if free:
                        p_ = free[op[2] % len(free)]
                        w.uni.remove_liquidity(p_, int(D(w.uni.positions[p_].liquidity) * D(op[3])), collect=False)
                        labels.add("lp.pending")
                    continue
                elif k == "lp_deposit":
                    free = [p for p in w.lps if p in w.uni.positions and not w.uni.positions[p].transferred and w.uni.positions[p].liquidity > 0]
                    if not w.vaults or not free:
                        continue
                    tgt = w.vaults[op[2] % len(w.vaults)]
                    w.sq.deposit_uni_position(tgt, free[op[3] % len(free)])
                    labels.add("lp.deposited")
                    ok, err, kind = True, None, "lp_deposit"
                else:
                    held = [(vk_, v.uni_nft_id) for vk_, v in w.sq.vault.items() if v.uni_nft_id is not None]
                    if not held:
                        continue
                    tgt, pos = held[op[3] % len(held)]
                    w.sq.withdraw_uni_position(tgt, pos)
                    ok, err, kind = True, None, "lp.withdraw"
            except Exception as e:  # noqa: a rejected operation is an outcome
                ok, err = False, e
                if k in ("lp_add", "lp_shrink", "lp_read"):
                    continue
                kind = {"open": "mint", "open_rate": "mint", "open_lp": "mint", "mint": "mint", "deposit": "deposit", "burn_withdraw": "withdraw", "lp_deposit": "lp_deposit", "lp_withdraw": "lp.withdraw"}[k]
                tgt = None
            post = w.raw()
            if not ok and k in ("open", "open_lp", "mint", "open_rate") and must_accept:
                ctx.fail("mint.rejected_but_safe", f"bar {i} {op}: rejected ({type(err).__name__}: {err}) although the vault would hold {total_coll} ETH of collateral against {'ratio ' + op[4] if k == 'open_rate' else str(float(D(op[4])) * 100) + '% of the 1.5x limit'}, wallet WETH {wal_w}", case)
            if ok:
                labels.add(f"{kind}.accepted")
                # soundness: accepted => the vault is safe and not dust afterwards
                if kind in ("mint", "withdraw", "lp.withdraw") and tgt is not None and tgt in w.sq.vault:
                    coll, debt, _, _ = w.vault_ref(tgt)
                    c = classify(coll, debt)
                    ctx.check(c in ("safe", "edge"), f"{kind}.accepted_but_{c}", lambda: f"bar {i} {op}: accepted, but vault {tgt.id} then holds collateral {coll} ETH against debt {debt} ETH (x1.5 = {1.5 * debt}) at TWAP {w.twap_eth()}", case)
                # exact movements
                if tgt is not None and tgt.id in post[0]:
                    c0, s0, _ = pre[0].get(tgt.id, (D(0), D(0), None))
                    c1, s1, _ = post[0][tgt.id]
                    d_weth, d_osq = post[1] - wal_w, post[2] - wal_o
                    snapped = post[1] == 0 and wal_w > 0 and abs((wal_w - (c1 - c0)) / wal_w) < D("0.00001")  # Asset.sub's documented snap
                    ctx.check(snapped or abs(d_weth + (c1 - c0)) <= D("1e-30") * max(abs(wal_w), abs(c0), abs(c1), 1), f"{kind}.weth_moved", lambda: f"bar {i} {op}: vault collateral {c0} -> {c1} but wallet WETH {wal_w} -> {post[1]}", case)
                    snapped_o = post[2] == 0 and wal_o > 0 and abs((wal_o + (s1 - s0)) / wal_o) < D("0.00001")
                    ctx.check(snapped_o or abs(d_osq - (s1 - s0)) <= D("1e-30") * max(abs(wal_o), abs(s0), abs(s1), 1), f"{kind}.osqth_moved", lambda: f"bar {i} {op}: vault short {s0} -> {s1} but wallet oSQTH {wal_o} -> {post[2]}", case)
                    ctx.check(c1 >= 0 and s1 >= 0 and post[1] >= 0 and post[2] >= 0, f"{kind}.negative", lambda: f"bar {i} {op}: negative amount: vault ({c1}, {s1}) wallet ({post[1]}, {post[2]})", case)
            else:
                msg = str(getattr(err, "message", err))
                if "not safe" in msg:
                    labels.add(f"{kind}.rejected.unsafe")
                if "dust" in msg:
                    labels.add("dust.rejected")
                labels.add(f"{kind}.rejected")
        # ---- the vault's reported collateral ratio and liquidation price are those of the statement
        for vk in list(w.sq.vault):
            coll, debt, _, _ = w.vault_ref(vk)
            got = ctx.guarded("ratio_view", case, w.sq.get_collat_ratio_and_liq_price, vk)
            if got is not None and debt > 0:
                labels.add("ratio.view")
                short_idx = float(w.sq.vault[vk].osqth_short_amount) * w.nf() / 1e4
                ctx.check(abs(float(got[0]) - coll / debt) <= 1e-8 * coll / debt and abs(float(got[1]) - coll / (1.5 * short_idx)) <= 1e-8 * coll / (1.5 * short_idx), "ratio.view", lambda: f"bar {i}: vault {vk.id} reports ratio {got[0]} / liquidation price {got[1]}; collateral {coll} ETH over debt {debt} ETH is {coll / debt}, and {coll / (1.5 * short_idx)}", case)
            elif got is not None:
                ctx.check(got[0] == 0 and got[1] == 0, "ratio.view", lambda: f"bar {i}: vault {vk.id} has no debt but reports {got}", case)
        # ---- end of bar: liquidation
        pre = w.raw()
        pre_ref = {}
        for vk in list(w.sq.vault):
            coll, debt, lw, lo_ = w.vault_ref(vk)
            pre_ref[vk.id] = (coll, debt, lw, lo_, classify(coll, debt))
        nact = len(w.actions)
        err = None
        try:
            w.sq.update()
        except Exception as e:  # noqa
            err = e
        if err is not None:
            ctx.fail(f"update.exception.{type(err).__name__}", f"bar {i}: update() raised {type(err).__name__}: {err}", case)
            continue
        post = w.raw()
        acts = w.actions[nact:]
        tw_o = w.twap_osq()
        for vid, (coll, debt, lw, lo_, cls) in pre_ref.items():
            c0, s0, nft0 = pre[0][vid]
            c1, s1, nft1 = post[0][vid]
            mine = [a for a in acts if getattr(a, "vault_id", None) == vid]
            if cls == "edge":
                labels.add("edge.skipped")
                continue
            if cls != "unsafe":
                # 'dust' without being under water is not a liquidation trigger
                labels.add("safe.not_liquidated")
                ctx.check(not mine and (c0, s0, nft0) == (c1, s1, nft1), "iff.liquidated_while_safe", lambda: f"bar {i}: vault {vid} (collateral {coll}, debt {debt}) is at or above 1.5x but update() changed it: {(c0, s0, nft0)} -> {(c1, s1, nft1)}", case)
                continue
            nontrivial = True
            ctx.check(bool(mine), "iff.not_liquidated", lambda: f"bar {i}: vault {vid} is below 1.5x (collateral {coll} ETH, debt {debt} ETH) but was not liquidated", case)
            # ---- reference liquidation
            C, S = float(c0), float(s0)
            exp_wal_o = 0.0
            if nft0 is not None:
                labels.add("liquidation.lp_first")
                burn = min(lo_, S)
                exp_wal_o = lo_ - burn
                bounty = min(0.02 * (lo_ * tw_o + lw), C + lw)  # paid out of the collateral: never more than there is
                S -= burn
                C += lw - bounty
                debt_after = S * w.nf() * w.twap_eth() / 1e4
                safe_after = S == 0 or 2 * C >= 3 * debt_after
                if abs(2 * C - 3 * debt_after) <= 1e-7 * max(3 * debt_after, 1e-12) and S > 0:
                    labels.add("edge.skipped")
                    continue
                if not safe_after:
                    C += bounty
            else:
                safe_after = False
            if not safe_after:
                x = S / 2
                pay = 1.1 * x * tw_o
                mode = "half"
                if C > pay and C - pay < 0.5:
                    if abs(C - pay - 0.5) <= 1e-7:
                        labels.add("edge.skipped")
                        continue
                    x, pay, mode = S, 1.1 * S * tw_o, "full"
                if pay > C:
                    if abs(pay - C) <= 1e-9 * C:
                        labels.add("edge.skipped")
                        continue
                    x, pay, mode = S, C, "capped"
                if nft0 is None:
                    labels.add(f"liquidation.plain.{'full' if mode != 'half' else 'half'}")
                if mode == "capped":
                    labels.add("liquidation.capped")
                S -= x
                C -= pay
            tol = 1e-8
            ctx.check(abs(float(s1) - S) <= tol * max(abs(S), float(s0), 1e-9) and abs(float(c1) - C) <= tol * max(abs(C), float(c0) + lw, 1e-9), "liquidation.amounts", lambda: f"bar {i}: vault {vid} ({c0} ETH, {s0} oSQTH short, LP {nft0} holding {lw} WETH / {lo_} oSQTH) at oSQTH TWAP {tw_o}: after update ({c1}, {s1}); the rule gives ({C}, {S})", case)
            ctx.check(nft1 is None or nft0 is None, "liquidation.lp_kept", lambda: f"bar {i}: vault {vid} liquidated but still holds its LP collateral", case) if nft0 is not None else None
            ctx.check(c1 >= 0 and s1 >= 0, "liquidation.negative", lambda: f"bar {i}: vault {vid} after liquidation: ({c1}, {s1})", case)
        # wallet: only excess oSQTH of redeemed LPs may arrive; WETH untouched
        exp_o = sum(max(lo_ - float(pre[0][vid][1]), 0.0) for vid, (coll, debt, lw, lo_, cls) in pre_ref.items() if cls == "unsafe" and pre[0][vid][2] is not None)
        ctx.check(post[1] == pre[1], "liquidation.wallet_weth", lambda: f"bar {i}: update() changed wallet WETH {pre[1]} -> {post[1]}", case)
        if not any(c[4] == "edge" for c in pre_ref.values()):
            ctx.check(abs(float(post[2] - pre[2]) - exp_o) <= 1e-8 * max(exp_o, 1.0), "liquidation.wallet_osqth", lambda: f"bar {i}: update() changed wallet oSQTH by {post[2] - pre[2]}, excess of redeemed LPs is {exp_o}", case)
    labels.add(f"path.{case.get('path_mode', 'mixed')}")
    labels.add(f"pool_quote.{case.get('quote', 'weth')}")
    ctx.case(case, nontrivial, sorted(labels))


def shards(tier, seed):
    n = 750 if tier == "quick" else 15000
    return [{"sub": "vaults", "idx": i, "n": n, "seed": derive_seed(seed, PROPERTY, "vaults", i)} for i in range(16)]


def run_shard(spec):
    ctx = Ctx(PROPERTY, spec["sub"])
    v = run_given(ctx, st_case(), body, spec["n"], spec["seed"])
    return ctx.result(v)


def replay(rec):
    return replay_body(PROPERTY, body, rec["case"], rec["sub"])
