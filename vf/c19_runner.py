"""Fresh-process runner for BacktestManager jobs (the forked path calls set_start_method once per process).

usage: python -m vf.c19_runner <jobs.json>     jobs = [{"case":..., "progs": [...], "order": [...], "threads": t, "out": dir}]
Each job builds fresh config / data / strategies, runs the real BacktestManager and lets the strategies write their
result files from finalize().  Between jobs the harness clears multiprocessing's default start-method context (this
touches only the harness process; the code under test is unchanged)."""
import contextlib
import io
import json
import logging
import multiprocessing
import os
import sys
import traceback


def run_job(job):
    from demeter import BacktestManager
    from vf import multi

    cfg, data, bk = multi.manager_inputs(job["case"])
    strategies = [multi.managed_script(job["case"], job["progs"][i], os.path.join(job["out"], f"s{i}.json"), i) for i in job["order"]]
    multiprocessing.context._default_context._actual_context = None
    BacktestManager(cfg, data, strategies, bk, threads=job["threads"]).run()


def main():
    logging.disable(logging.CRITICAL)
    os.environ.setdefault("TQDM_DISABLE", "1")
    import decimal

    import demeter.uniswap.helper  # noqa: sets the global decimal precision

    jobs = json.load(open(sys.argv[1]))
    status = []
    for job in jobs:
        try:
            with contextlib.redirect_stdout(io.StringIO()), contextlib.redirect_stderr(io.StringIO()):
                run_job(job)
            status.append("ok")
        except BaseException:  # noqa
            status.append(traceback.format_exc())
    json.dump(status, open(sys.argv[1] + ".status", "w"))


if __name__ == "__main__":
    main()
