NOTES = ("Every check: ./check <ID> --tier quick|thorough; VERIF_SEED selects the Hypothesis seeds; evidence/<ID>.json is rewritten "
         "by every run; replays/ holds shrunk failing cases; known_findings.json lists recorded and fixed defects.")
NOT_APPLICABLE = {}
CHECKS = {
 "C06": {
  "technique": "exhaustive enumeration of all ticks + Hypothesis-drawn sqrt prices against a precision-100 reference and an integer floor oracle",
  "text": "All 1,774,545 ticks are enumerated against an independent high-precision reference (closeness bound, strict monotonicity, boundary constants); the floor inverse is decided with integers for 3 sqrt prices per tick interval (every 13th interval in quick, all in thorough) plus drawn prices; usable-tick rounding over all ticks x 4 spacings; price<->tick round trips over drawn ticks x decimals x orientation. Exhaustive for the forward map and rounding, sampled for sqrt prices between boundaries (domain ~2^160).",
  "note": "Trusts Python's decimal module at precision 100 for the reference; the floor oracle uses the implementation's own tick->ratio map, tied to the reference by the forward part.",
 },
 "C07": {
  "technique": "Hypothesis generated inputs by boundary class against exact Fraction closed forms; deposit/withdraw round trip through the real market",
  "text": "Generated (price class x range class x decimals x amounts) cases are checked against exact rational re-derivations of the LiquidityAmounts formulas: no over-spend, maximality up to the stated integer-rounding slack, one-sidedness by region, non-negativity, monotonicity, proportionality, closed-form agreement at 1e-30; plus add/remove round trips through UniLpMarket in both orientations with default and explicit sqrt prices. Sampled, not exhaustive: the domain is ~2^160 prices x 1.5e12 tick pairs.",
  "note": "Trusts fractions.Fraction arithmetic and the tick->ratio map (verified by C06) to place prices on range boundaries.",
 },
 "C20": {
  "technique": "Hypothesis generated net-value series by shape class against pure-Python definitions (O(n^2) drawdown, fsum std/cov), metamorphic rescaling, cross-form agreement",
  "text": "Generated positive series (2..400 points, seven shape classes including 'largest absolute != largest relative decline' and never-falling) x interval x benchmark are compared with brute-force definitions of drawdown, returns in all input forms, volatility, Sharpe, alpha/beta, and with performance_metrics. Sampled exploration; float tolerance stated in the evidence.",
  "note": "Trusts Python float arithmetic and math.fsum for the definitions; tolerance widened by the conditioning of x**(365/days).",
 },
 "C18": {
  "technique": "Hypothesis generated (bar grid x trigger specifications) run through the real Actuator loop, compared with a brute-force set denotation; retirement checked per bar",
  "text": "Every trigger kind with generated parameters (on, beside and outside the grid; duplicates; overlapping/empty ranges; delays; immediate; coinciding periods; late registration; kwargs) is executed by Actuator.run over grids with interval 1/2/5/15/60 min and 1..300 bars; firing sets, once-per-bar, kwargs and retirement are compared with an independent denotation. Sampled exploration of an unbounded parameter space.",
  "note": "Denotation of Period(s) triggers is defined for periods/delays that are multiples of the bar interval; trusts the integer bar-grid computation (also checked against the visited bars).",
 },
}

CHECKS["C10"] = {
  "technique": "Hypothesis generated operation histories (programs as data with run-time selectors) on the real AaveV3Market against an exact rational ledger; split/merge metamorphic re-run",
  "text": "Generated index paths (flat / tiny / small / 8% steps, equal and unequal across 2-4 tokens, 1-10 bars) x interleavings of supply / withdraw / borrow / repay (cash, same-token and other-token collateral) with amounts 0, dust, fractions, exactly all, a hair above, 10x, None; after every step each supplied and owed amount is compared with a Fraction ledger (stated amount moved, x index ratio per bar) at 4e-18 x index + 1e-28 relative, wallet deltas and the recorded action amount with the stated amount, and entry removal on full repay / withdraw; each history is re-run with one accepted operation split in two and the end states compared at 3e-18. Sampled exploration of an unbounded history space.",
  "note": "The ledger is re-synchronised after a liquidation (C12's subject). Trusts fractions.Fraction and the generated rows; negative amounts are outside the domain.",
}
CHECKS["C13"] = {
  "technique": "Hypothesis generated interleavings of reads and writes on the real AaveV3Market; after every step every derived view is compared with a from-scratch Fraction recomputation",
  "text": "Generated histories of supply / withdraw / borrow / repay / collateral-flag changes / reads of a random derived view / new bars / end-of-bar liquidations, accepted and rejected; after every step supplies, borrows (amounts, values, flags, apy), per-token and total supply / collateral / debt values, health factor, LTV, max LTV, liquidation threshold, APYs and get_market_balance() are compared with a recomputation from the raw positions, the bar's indices and prices (1e-25 relative, 0.51e-4 where the code quantises). Sampled exploration.",
  "note": "Trusts the raw containers _supplies/_borrows as ground truth and a 60-digit Decimal evaluation of (1+r/N)^N for APYs.",
}

CHECKS["C11"] = {
  "technique": "Hypothesis generated portfolios reached by real operations and re-priced, requests at the frontier of the max-borrow / max-withdraw helpers; outcomes compared with the Aave v3 admissibility conditions in exact rationals (soundness always, completeness with 0.1% margin)",
  "text": "Generated 2-4 token risk tables (LTV <= LT < 1) x collateral / non-collateral supplies x several debts x price and index moves (health factor anywhere); every borrow / withdraw / flag change, accepted or rejected, is judged by the Fraction condition (collateral x weighted max-LTV covers debt + new borrow; health factor afterwards >= 1), HF >= 1 after every accepted operation on a healthy account, HF / max-LTV / liquidation-threshold views against their definitions, and the max helpers: helper amount accepted, <= supplied, 1.01x (withdraw) / 1.0202x (borrow) rejected. Sampled exploration.",
  "note": "Completeness only with 0.1% margin; helper claims only for accounts with collateral and a positive helper answer; amounts non-negative.",
}
CHECKS["C12"] = {
  "technique": "Hypothesis generated multi-collateral multi-debt portfolios driven below HF 1 by generated price / index rows; every liquidation step observed through the action callback and validated against an exact rational step model",
  "text": "For every update(): no step and unchanged state iff HF >= 1; per step: HF < 1 before, one debt visited at most once, repaid <= close factor (1/2 above HF 0.95, else 1) x debt, seized = repaid value x (1 + collateral's bonus) / collateral price at the collateral's own liquidity index (or all collateral with the repayment scaled), only that collateral and that debt change, wallet identical, net value falls by exactly bonus x repaid value, amounts non-negative, the LiquidationAction fields equal the observed deltas; on exit HF >= 1 or no collateral or every positive debt visited; no exception escapes. Sampled exploration with unequal indices in 5 of 6 cases.",
  "note": "The choice of the (collateral, debt) pair is not prescribed by the property and not checked. States in which a supply with liquidation threshold 0 was flagged as collateral by hand are excluded from the 'iff' direction.",
}

CHECKS["C15"] = {
  "technique": "Hypothesis generated order books and order sequences on the real DeribitOptionMarket; every step validated against a Decimal reference matching engine applied to the visible book",
  "text": "Generated ETH / BTC books (0-8 levels per side, integer and float sizes, bids <= mark <= asks) x 1-7 orders per bar over 1-2 bars in all pricing modes (market, limit in token with jitter, limit in USD, cap relative to mark, cap + limit), sizes from below the minimum to beyond total depth, deposits / withdrawals in between; per step: accepted iff the reference fills it (depth, level, cash, holding), fills best-first with per-level sizes, fee = min(0.03% x contracts, 12.5% x premium) half-up at the fee step, cash / position / size-weighted averages, visible book after the fill, other instruments untouched, the action record, equity = cash + positions at mark; a rejected order leaves everything as it was; the book refreshes on the next bar and the supplied frame is never written. Sampled exploration.",
  "note": "Decisions closer than 1e-9 to their boundary (float book sizes, a level exactly on the cap) are not asserted.",
}

CHECKS["C16"] = {
  "technique": "Hypothesis generated option holdings, underlying paths and expiry placements run through the real Actuator loop (hourly market alone or with a minutely co-market); per-bar log compared with the settlement rule",
  "text": "2-6 hourly snapshots x ETH / BTC x 1-4 calls / puts bought on the first open bar (some partly or wholly sold later) x strikes equal to, one unit beside and far from the underlying at settlement x expiries on the grid, between grid points, before the first bar and after the last x instrument still listed or delisted at settlement x trade probes on closed and open bars; checked: position held on every bar before and removed exactly at the first open bar at or after expiry, one Expired record and at most one Deliver record at that bar, payoff = contracts x |U - K| / U at the fee step, fee = min(0.015% x contracts, 12.5% x contracts x mark), nothing paid out of the money or when the payoff does not exceed the fee, option cash explained bar by bar by the records, trades on closed bars raise and change nothing, supplied data unchanged. Sampled exploration.",
  "note": "Every hour in range has a snapshot; delisted instruments: fee only bounded; rounding ties of the float division may go either way.",
}

CHECKS["C17"] = {
  "technique": "Hypothesis generated GMX v1 pool rows and v2 pool states with buy / sell / deposit / withdraw sequences; outcomes compared with an integer re-implementation of the v1 Vault / GlpManager rules and a float re-derivation of the v2 deposit / withdrawal formulas; round-trip metamorphic check",
  "text": "v1: 2-7 tokens with 6 / 8 / 18 decimals, USDG amounts on both sides of and exactly at target, amounts over 12 orders of magnitude and sized by the distance from target; fee in [0, 85 bp] and within 1 bp of getFeeBasisPoints (flat / rebate / tax branches), minted and redeemed amounts = price x amount / value per share with the contract's round-downs (2 units of the last place), wallet and holding deltas, buy-then-sell returns <= paid, reward = rate x 60 x held / supply, over-redemption rejected. v2: balanced / imbalanced pools, virtual inventories, impact pool 0..1e6; minted GM, fees, impact (same-side, crossover, virtual, capped by the impact pool), negative-mint deposits rejected, pro-rata withdrawals, over-withdrawal rejected, deposit-then-withdraw value <= paid except within the applied positive impact (known finding). Sampled exploration.",
  "note": "v2 is float arithmetic: 1e-9 relative. The v2 reference re-derives the same published formulas; it shares no code with the implementation.",
}

CHECKS["C08"] = {
  "technique": "Hypothesis generated tick paths, ranges, volumes and same-bar operation interleavings run through the real Actuator loop; growth of pending fees across update() compared with the exact rational fee formula",
  "text": "Loader-shaped frames (int64 ticks, Decimal volumes / liquidity), paths anchored on the range bounds (exactly on, one tick inside / outside, jumps across, stationary), bar interval 1 and 5 min, both orientations, decimals {6,8,18}^2, three fee tiers, 1-3 positions added in before_bar / on_bar and removed later, unrelated swaps / far-away positions / collects in the same bar; per bar and position: fee_k = volume_k x rate x fraction of [previous close, close] inside [lower, upper) x own / (pool + all own), at 1e-25 relative plus one unit of the last place of the pending amount; never negative; zero when the path never enters the range; never above the single-position share. Sampled exploration.",
  "note": "Bar 0 uses its own close as path start. Pool liquidity >= 1 (a pool row with zero liquidity and a zero-liquidity own position divides 0/0 in the code: outside the generated domain, stated here).",
}

CHECKS["C09"] = {
  "technique": "Hypothesis generated programs in base / quote terms executed on a pool and on its mirror (token order, decimals, volumes swapped, ticks negated); metamorphic comparison of every returned quantity, wallet and market balance after every step",
  "text": "2-10 operations per program: adds by tick (default price; explicit tick on the lower / upper bound, inside, +1, -1) and by price, partial / full removes with and without collect, collects, buy, sell, swap either way, even_rebalance, add_liquidity_by_value (wide ranges around, above and below the price; whole balance or a value), estimate_amount, estimate_liquidity (in and out of range), get_position_status (amounts, values, H / L / P), get_market_balance, bars with mirrored off-grid tick paths and volumes (fee accrual incl. crossings); decimals {6,8,18}^2, three fee tiers, price region below / inside / above. Exact operations at 1e-12 of the account size, liquidity at 1e-9 + 4 units, estimate helpers at max(0.1%, 1.5 / distance to the nearest bound in ticks), add_liquidity_by_value at max(1%, 20 / distance) and by value; same exception class required in both orientations. Sampled exploration.",
  "note": "A relation between two runs of the same code: errors that are symmetric in both orientations are invisible to it (they are C07 / C08's subject). Closes exactly on a range bound are excluded for bars (half-open tick ranges do not mirror); explicit on-bound prices are used for exact operations.",
}

CHECKS["C14"] = {
  "technique": "Hypothesis generated price / normalisation-factor paths and vault programs (with and without LP collateral) on the real SqueethMarket + oSQTH/WETH pool, validated step by step against a reference of the statement's rules",
  "text": "1-14 timestamped minute rows (TWAP window live, shorter than 7 rows at the start), ETH / oSQTH / norm-factor paths with jumps and flats; programs of open / deposit / mint at 0..120% of the 1.5x limit (incl. 1 +- 1e-7), burn-and-withdraw fractions, LP positions minted around the price, lent to and taken back from vaults; per step: TWAP = geometric mean of the trailing <= 7 rows (1e-9), accepted mint / withdrawal / LP withdrawal => collateral (ETH + LP at index price) >= 1.5 x debt and >= 0.5 ETH, mints with 0.1% margin accepted, exact oSQTH / ETH movements between wallet and vault, no negative amounts; at bar end: liquidated iff below 1.5x, LP redeemed first (WETH to collateral, oSQTH burned, excess to wallet, 2% bounty limited to the collateral), then half / all rule at TWAP oSQTH x 1.1 capped at the collateral, wallet WETH untouched. Sampled exploration.",
  "note": "Float TWAP: decisions within 1e-7 of a limit are not asserted. LP token amounts are read from the pool market's position view (C07). The bounty cap is the repaired behaviour (the contract would revert there).",
}

CHECKS["C01"] = {
  "technique": "Hypothesis generated multi-market universes (market mix, order, quote token, interval, data paths, program of operations with run-time selectors) run through the real Actuator; every bar's reported net value, asset value and per-market value compared with an independent Fraction / closed-form valuation of the raw position containers from the generated data rows",
  "text": "Any non-empty mix of Uniswap (either token order / quote), Aave, Squeeth + its pool, Deribit, GMX v1, GMX v2 behind one broker, account quote USD / USDC / WETH, 1/2/5/15/60-minute bars, crashes that liquidate, expiries, deposits on closed hourly bars, LP positions lent to vaults, external prices on and off the pools' own; at the end of every bar wallet, liquidity + pending fees (lent positions skipped in the pool and counted once in the vault), supplies - debts at the bar's indices, vault collateral - short, option cash + positions at mark, GLP + rewards, GM share of pool value are recomputed from the generated rows (exact closed forms / rationals) and compared with AccountStatus. Sampled exploration.",
  "note": "The conversion of a market's value uses the price-frame entry of the market's quote token, as the property states; USD-valued markets convert at 1. Resampled bars use the documented aggregation (first / last / sum) computed independently by integer binning.",
}

CHECKS["C05"] = {
  "technique": "Hypothesis generated multi-market universes and programs run through the real Actuator with instance-level wrappers on market status / update, the action callback, strategy hooks, a per-bar trigger and notify; the recorded trace is checked against the per-bar phase grammar, the integer-computed bar grid and the account history",
  "text": "Per bar: status refresh of every market with the bar's timestamp, then before-bar, trigger, on-bar, optional extra refreshes (this bar's timestamp, written markets only), update() of every market exactly once, after-bar, then notify of exactly the records made in this bar in recording order; bars equal the independently binned grid (1/2/5/15/60 minutes, any start), strictly increasing, once each; every record stamped with its bar (all four phases and update-time liquidations / expiries); accepted recording operations produce a record; Actuator.actions equals the recording sequence; account history has one row per bar with the bar's timestamp and price-frame prices; finalize once at the end. Sampled exploration.",
  "note": "Observation is by instance-level wrapping (no source hooks). Extra refreshes are allowed where the statement is silent. Rejected or partially executed helpers are not required to produce records.",
}

CHECKS["C02"] = {
  "technique": "Hypothesis generated multi-market universes; differential runs of the real Actuator on two histories sharing a prefix of k bars (every later row changed in every column), frame fingerprints before / after, and a re-run on the same frame objects",
  "text": "For a generated universe, program and cut bar k: account rows 0..k, records stamped <= bar k, per-operation outcomes and deep copies of the snapshots handed to all four strategy hooks for bars <= k are identical between H and H' (H' differs after bar k in ETH / oSQTH / AVAX paths, pool ticks, liquidity, volumes, indices, normalisation factor, GLP / GM pool state, option marks of later hours); every supplied frame (market data incl. nested order-book lists, price frame) has the same fingerprint before the Actuator sees it and after the run; a second run on the very same frame objects with a fresh account reproduces history and records exactly. All market types, 1/2/5/15/60-minute bars. Sampled exploration.",
  "note": "'Bars 0..k' means every minute row of bins 0..k and every option snapshot whose hour is <= bar k's hour. A run may replace market.data by a resampled frame; the supplied objects are what is fingerprinted.",
}

CHECKS["C19"] = {
  "technique": "Hypothesis generated universes and sets of scripted strategies run by the real BacktestManager (sequential in-process path and forked pool path in a fresh subprocess), differential against running each strategy alone",
  "text": "1-4 strategies with generated programs over a generated market mix (incl. ones leaving supplies, debts, liquidity positions, vaults, option holdings, GLP / GM open), generated order and worker count 2..n; each strategy's account history (net value, balances, every market's balance fields), operation outcomes, record classes and final raw positions, written from finalize(), must equal those of the same strategy run alone by a manager with freshly built inputs - on the threads=1 path and on the fork-pool path. Sampled exploration.",
  "note": "OS scheduling of the pool workers is not controlled. The forked path runs in a harness subprocess per case (the manager sets the start method once per process); one in four cases exercises it.",
}

CHECKS["C04"] = {
  "technique": "Hypothesis generated operation sequences (programs as data with run-time selectors, oversized / boundary arguments, small wallets, closed option market) on a frozen multi-market universe of real market objects; deep state snapshot before / after every raising call; recorded-transaction replay for multi-transaction helpers",
  "text": "Up to 30 operations of all six market families and the broker per case, in any reachable state; whenever a call raises (insufficient balance of either token, unsafe health factor / collateral ratio, dust, flag mismatch, zero / invalid argument, unknown position / vault / instrument, closed market, insufficient depth, over-large repay / withdraw / sell) the snapshot (wallet, positions, supplies / debts and flags, vault fields and id counter, option cash / holdings, GLP / GM amounts, last_tick, visible order book, action-log length) must be unchanged; rejected add_liquidity_by_value / even_rebalance / remove_all_liquidity must equal 'before + the constituent transactions that were recorded'. Sampled exploration.",
  "note": "A zero wallet balance equals an absent entry. Memo caches are C13's subject. Negative amounts are outside the domain.",
}

CHECKS["C03"] = {
  "technique": "Hypothesis generated operation sequences (programs as data, run-time selectors, boundary / oversized arguments, dependent motifs) on a frozen multi-market universe of real market objects with consistent prices; net-value invariant after every step, exact-conservation and exact-fee classes, non-negativity of every raw holding, cross-check against the independent valuation",
  "text": "Up to ~40 operations of all six market families and the broker per case against one wallet; after every step, accepted or rejected: net value not up by more than dust; uniswap add / remove / collect and aave supply / withdraw / borrow / repay / flag conserve it; swaps, buys, sells lose exactly the reported fee at the frozen price; helpers lose at most fees; every wallet balance, liquidity, pending amount, scaled supply / debt, vault collateral / short, option cash / amount, GLP, reward, GM >= 0; the broker's net value equals the C01 reference. The two modelled value-raising effects (index-vs-mark revaluation of an LP position held by a vault; GMX v2 positive price impact) are verified against their exact formulas and reported as known findings; anything beyond them is a violation. Sampled exploration.",
  "note": "Tolerances are tighter than the property's dust unless a wallet balance was emptied (the documented 1e-5 snap). Caller-priced swaps are excluded. Prices agree with the pools' own by construction of the case.",
}

# ---- additions after the seeded-change rounds (DESIGN section 8)
CHECKS["C05"]["text"] += " Operations issued from inside notify() record and are notified within the same bar; every market whose has_update flag is set when on-bar ends is refreshed again before update()."
CHECKS["C08"]["text"] += " Second sub-check 'universe': the same formula for every pool position - incl. positions lent to squeeth vaults - inside multi-market universes (1/2/5/15/60-minute bars, operations in all phases incl. after-bar and notify)."
CHECKS["C08"]["technique"] += "; the formula re-applied to all pool positions of generated multi-market universes"
CHECKS["C07"]["text"] += " The deposit price is also passed as an explicit tick (0, -1, 1, the bounds, the middle) while the market stands at another price."
CHECKS["C09"]["text"] += " Collects are also capped, with caps stated in base / quote terms."
CHECKS["C14"]["text"] += " Rows are spaced 1, 2 or 5 minutes (the window is seven minutes, not seven rows); lent LP positions may carry pending amounts."
CHECKS["C15"]["text"] += " One book in five lives on a binary-exact price grid so that a level can sit exactly on mark x multiple; there the accept / reject decision is not asserted, but an accepted order must credit exactly what its fills add up to and cost."
CHECKS["C15"]["note"] = "Decisions closer than 1e-9 to their boundary are not asserted as accept / reject; boundary-independent consistency (position = sum of fills, cash = cost + fee) still is."
CHECKS["C16"]["text"] += " Purchases are spread over several hours (holdings with different expiries built up over time)."
CHECKS["C18"]["text"] += " Delays of one and two days are included."
CHECKS["C20"]["text"] += " Every call must leave the series it was given unchanged and a repeated call on the same series must agree."
CHECKS["C02"]["text"] += " Prices are handed over as a plain frame (USD quote) or in the (frame, quote token) tuple form; option orders use every pricing mode; histories have up to 12 bars with cuts weighted towards late bars."
CHECKS["C04"]["text"] += " The snapshot includes the Aave views a user reads right after a rejected call (health factor, supply / collateral / debt values and listings)."
CHECKS["C03"]["text"] += " Option books may sit on a binary-exact grid (levels exactly on a cap); LP positions already held by a vault are offered to a second vault."
CHECKS["C05"]["text"] += " Programs also act inside Strategy.initialize(): those records belong to the first bar."
CHECKS["C05"]["note"] += " Universes always contain a minutely market: hourly-only runs (price feed finer than the bar grid) are C16's subject."
CHECKS["C16"]["text"] += " The account history of the run has exactly one row per bar (also when the price feed is finer than the hourly bar grid)."
CHECKS["C17"]["text"] += " A 'newrow' operation moves token weights, a USDG amount and the USDG total between operations (targets change from bar to bar)."
CHECKS["C19"]["text"] += " Every strategy also carries a stateless call-counting trigger and is inspected again after the whole manager run: a later strategy must not reach back into a finished one."
CHECKS["C04"]["text"] += " Wallets may be sparse (no entry for a token never held)."

# ---- session 3: what was added to the explored domain of each check (appended to the level text)
ADDENDA = {
 "C02": " Also: rows of account_status_df (blank cell = absent column); a history that simply ends after bar k must reproduce bars 0..k (catches rows rewritten by later operations); intactness of the inputs through the BacktestManager entry point.",
 "C05": " Records are observed at the Actuator's own action list (market callbacks untouched); market objects that served another broker before are part of the domain.",
 "C06": " Argument types as callers have them (numpy integer ticks, UnitDecimal prices) and the market's own tick/price wrappers for both quote orientations are included.",
 "C07": " Also numpy integer ticks, a companion pool of the same broker operated in the same bar, partial removals that collect nothing on the way, and requests for more liquidity than held.",
 "C09": " Bars merged from several minute rows by the package's own resampling are mirrored too.",
 "C10": " Also brokers that allow negative balances (exact debits), amounts a hair off the balance, whole positions rounded to 18 decimals, markets told about a subset of the tokens, the max-repay view.",
 "C12": " Also portfolios with an exact decimal health factor (0.95, 1 and neighbours); the close factor is claimed as an upper bound, as stated.",
 "C13": " Also markets told about a subset of the tokens and quiet bars (pool rows repeat, one price moves).",
 "C14": " Also: LP amounts of the reference from closed forms (not the market's view), reads of position views, ETH-flat paths with a moving pool price, vaults opened by target ratio, the reported collateral ratio / liquidation price, pool market quoted in WETH or oSQTH.",
 "C15": " Also books of expensive options whose neighbouring levels share one +-0.1% limit window, and the public cost estimate of market orders.",
 "C16": " A position sold out and bought again before expiry is followed through the buy / sell records.",
 "C17": " Also GLP tokens registered at construction, later, or twice; GM pools configured with their own fee factors.",
 "C18": " Also triggers registered by the action of another trigger (appended, or by assigning a new list).",
 "C19": " Also configured markets that already hold positions when handed to the manager.",
 "C20": " Also benchmark series with an index of their own (RangeIndex, shifted / offset time stamps) and alpha / beta of performance_metrics.",
 "C03": " Option limit prices a few 0.01% off a level (token and usd) and whole Aave positions rounded to 18 decimals are part of the argument classes.",
 "C04": " Whole Aave positions rounded to 18 decimals (up / down) as repay / withdraw amounts are part of the argument classes.",
}
for _pid, _t in ADDENDA.items():
    CHECKS[_pid]["text"] += _t
