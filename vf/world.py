"""Builders for real demeter objects from generated plain data."""
from __future__ import annotations

from decimal import Decimal

import pandas as pd

D = Decimal


def tokens(d0: int, d1: int):
    from demeter import TokenInfo

    return TokenInfo(name=f"TA{d0}", decimal=d0), TokenInfo(name=f"TB{d1}", decimal=d1)


def uni_pool(d0: int, d1: int, token0_is_quote: bool, fee="0.05"):
    from demeter.uniswap import UniV3Pool

    t0, t1 = tokens(d0, d1)
    return UniV3Pool(t0, t1, float(fee), t0 if token0_is_quote else t1)


def uni_static(d0, d1, token0_is_quote, fee="0.05", tick=0, price=None, pool_liq=10**18, in0=0, in1=0, bal0=D(0), bal1=D(0), name="uni"):
    """A broker with one UniLpMarket frozen at a status row (the way the unit tests build it)."""
    from demeter import Broker, MarketInfo
    from demeter.uniswap import UniLpMarket, UniswapMarketStatus

    pool = uni_pool(d0, d1, token0_is_quote, fee)
    broker = Broker()
    market = UniLpMarket(MarketInfo(name), pool)
    broker.add_market(market)
    if price is None:
        price = market.tick_to_price(tick)
    market.set_market_status(
        UniswapMarketStatus(
            timestamp=None,
            data=pd.Series(
                data=[in0, in1, pool_liq, tick, price],
                index=["inAmount0", "inAmount1", "currentLiquidity", "closeTick", "price"],
            ),
        ),
        price=None,
    )
    broker.set_balance(pool.token0, D(bal0))
    broker.set_balance(pool.token1, D(bal1))
    return broker, market
