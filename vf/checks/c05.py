"""C05 — each bar once, in order, fixed phase order; action records and the account history align with bars."""
import pandas as pd
from hypothesis import strategies as st

from vf import multi, world
from vf.engine import Ctx, derive_seed, replay_body, run_given
from vf.gen.multi import st_universe

PROPERTY = "C05"
RULE = (
    "real Actuator.run over generated universes (market mix incl. minutely + hourly markets together, 1-8 bars at "
    "1/2/5/15/60 minutes starting anywhere, scripted strategy acting in before-bar, trigger, on-bar and after-bar with "
    "accepted and rejected operations, liquidations and expiries produced by the paths). The harness wraps, on the "
    "instances, every market's set_market_status / update, the action callback, the strategy hooks, a per-bar trigger and "
    "notify, and checks the resulting trace per bar: status(all, this bar) -> before -> trigger -> on -> [extra status, "
    "this bar, written markets only] -> update(each market once) -> after -> notify(this bar's records, in order, once); "
    "bars = independently computed grid; record timestamps; account history rows and price columns. Non-trivial = >= 2 "
    "bars and (>= 2 markets or interval != 1 min or >= 1 record)."
)
ASSUMPTIONS = [
    "additional market-status refreshes between on-bar and update must carry the bar's timestamp and concern only markets written in this bar; every market whose has_update flag is set at the end of on-bar must get one (the mechanism the property anchors: a position added in a bar takes part in that bar's update)",
    "'accepted operation produces its record' is asserted for operation kinds that have a record type and a non-degenerate amount (flag changes, zero-amount buys, empty remove_all have none)",
    "action records are compared by identity / class, not by action_type name (several ActionTypeEnum members are aliases)",
]
MIN_NONTRIVIAL = {"quick": 500, "thorough": 10000}
REQUIRED_LABELS = ["interval.1", "interval.2", "interval.5", "interval.15", "interval.60", "mix.hourly+minutely", "phase.before.record", "phase.trigger.record", "phase.on.record", "phase.after.record", "update.record", "second_refresh", "rejected.op", "phase.notify.record", "phase.init.record"]

RECORDING = {("uni", "add"), ("uni", "add_price"), ("uni", "remove"), ("uni", "collect"), ("uni", "swap"), ("squni", "add"), ("squni", "add_price"), ("squni", "remove"), ("squni", "collect"), ("squni", "swap"),
             ("aave", "supply"), ("aave", "withdraw"), ("aave", "borrow"), ("aave", "repay"), ("sq", "open"), ("sq", "deposit"), ("opt", "deposit"), ("opt", "withdraw"), ("opt", "buy"), ("opt", "sell"),
             ("glp", "buy_glp"), ("glp", "sell_glp"), ("gm", "deposit"), ("gm", "withdraw"), ("broker", "swap_from"), ("broker", "swap_to")}


class Trace(multi.Obs):
    def __init__(self):
        self.ev = []

    def install(self, u):
        self.u = u
        a = u.actuator
        for key, m in u.m.items():
            self._wrap_market(key, m)
        # records are observed where the Actuator keeps them (its action list), not by replacing the markets' callbacks:
        # how a market comes to report to this Actuator (Broker.add_market) is part of what is checked
        ev = self.ev

        class Tap(list):
            def append(self, action):
                list.append(self, action)
                ev.append(("record", action, action.timestamp))

        assert not a._action_list
        a._action_list = Tap()
        o_reset = a.reset

        def reset(_o=o_reset):  # Actuator.run() starts with reset(), which makes a new list
            _o()
            a._action_list = Tap()

        a.reset = reset

    def _wrap_market(self, key, m):
        o_status, o_update = m.set_market_status, m.update

        def status(data, price, _o=o_status, _k=key):
            self.ev.append(("status", _k, pd.Timestamp(data.timestamp)))
            return _o(data, price)

        def update(_o=o_update, _k=key):
            self.ev.append(("update", _k))
            return _o()

        m.set_market_status = status
        m.update = update

    def phase_start(self, u, phase, snap):
        self.ev.append(("phase", phase, snap.row_id, pd.Timestamp(snap.timestamp)))

    def op_done(self, u, phase, op, out):
        self.ev.append(("op", op, out[0]))

    def phase_end(self, u, phase, snap):
        if phase == "on":
            # markets flagged as written (the documented has_update mechanism) when the strategy's turn ends
            self.ev.append(("dirty", [k for k, m in u.m.items() if m.has_update]))

    def on_notify(self, u, action):
        self.ev.append(("notify", action))

    def on_finalize(self, u):
        self.ev.append(("finalize",))


def body(case, ctx: Ctx):
    tr = Trace()
    u = ctx.guarded("build", case, multi.Universe, case, [tr])
    if u is None:
        ctx.case(case, False, ["build.failed"])
        return
    tr.install(u)
    labels = {f"interval.{case['k']}"}
    if "opt" in case["order"]:
        labels.add("mix.hourly+minutely")
    a = u.actuator
    ok = ctx.guarded("loop", case, lambda: (world.quiet_run(a), True)[1])
    if ok is None:
        ctx.case(case, False, sorted(labels))
        return
    bars = [pd.Timestamp(b) for b in u.bars]
    ev = tr.ev
    # ---- split the trace into bars at 'phase before'
    idx_before = [i for i, e in enumerate(ev) if e[0] == "phase" and e[1] == "before"]
    ctx.check(len(idx_before) == len(bars), "bars.count", lambda: f"{len(idx_before)} bars visited, grid has {len(bars)}: {bars[:3]}..", case)
    seen_ts = [ev[i][3] for i in idx_before]
    ctx.check(seen_ts == bars[: len(seen_ts)], "bars.grid", lambda: f"bars visited {seen_ts[:6]} differ from the resampled grid {bars[:6]}", case)
    ctx.check([ev[i][2] for i in idx_before] == list(range(len(idx_before))), "bars.row_id", lambda: f"row ids {[ev[i][2] for i in idx_before]}", case)
    ctx.check(ev[-1] == ("finalize",) and sum(1 for e in ev if e[0] == "finalize") == 1, "finalize", "finalize not called exactly once at the end", case)
    keys = list(u.m)
    n_records = 0
    for b, start in enumerate(idx_before):
        ts = bars[b] if b < len(bars) else None
        # events of this bar: from the status refreshes preceding 'before' to just before the next bar's first status
        lo = start
        while lo > 0 and ev[lo - 1][0] == "status":
            lo -= 1
        if b == 0:
            lo = 0  # everything before the first before_bar: the two initial refreshes and whatever initialize() did
        end = idx_before[b + 1] if b + 1 < len(idx_before) else len(ev) - 1
        hi = end
        while hi > start and ev[hi - 1][0] == "status" and b + 1 < len(idx_before):
            hi -= 1
        seg = ev[lo:hi]
        where = f"bar {b} ({ts})"
        # 1. leading status: every market, this bar's timestamp (bar 0 is refreshed once more before the strategy is initialised)
        lead = [e for e in ev[lo:start] if e[0] == "status"]
        lead_keys = [e[1] for e in lead]
        need = keys * 2 if b == 0 else keys
        ctx.check(sorted(lead_keys) == sorted(need) and all(e[2] == ts for e in lead), "status.lead", lambda: f"{where}: status refreshes before before_bar: {[(e[1], str(e[2])) for e in lead]}", case)
        # 2. phase order
        order = [e[1] for e in seg if e[0] == "phase"]
        ctx.check(order == ["before", "trigger", "on", "after"], "phase.order", lambda: f"{where}: strategy hooks ran as {order}", case)
        ctx.check(all(e[3] == ts and e[2] == b for e in seg if e[0] == "phase"), "phase.snapshot", lambda: f"{where}: a hook received a snapshot of another bar: {[(e[1], e[2], str(e[3])) for e in seg if e[0] == 'phase']}", case)
        pos = {e[1]: i for i, e in enumerate(seg) if e[0] == "phase"}
        if len(pos) < 4:
            continue
        # 3. update: each market exactly once, between on and after
        upd = [(i, e[1]) for i, e in enumerate(seg) if e[0] == "update"]
        ctx.check(sorted(k for _, k in upd) == sorted(keys), "update.once", lambda: f"{where}: update() calls {[k for _, k in upd]}, markets {keys}", case)
        ctx.check(all(pos["on"] < i < pos["after"] for i, _ in upd), "update.position", lambda: f"{where}: update() not between on_bar and after_bar: {[(e[0], e[1]) for e in seg if e[0] in ('phase', 'update')]}", case)
        # 4. extra status refreshes: only between on and update, this bar, only markets written in this bar
        extra = [(i, e) for i, e in enumerate(seg) if e[0] == "status" and i > pos["before"]]
        first_upd = min((i for i, _ in upd), default=len(seg))
        written = set()
        for i, e in enumerate(seg[: first_upd]):
            if e[0] == "op" and e[2] in ("ok", "rejected"):
                written.add(e[1][2])
                if e[1][2] == "sq":
                    written.add("squni")
                if e[1][2] == "broker":
                    written.update(keys)
        dirty = [e[1] for e in seg if e[0] == "dirty"]
        refreshed = {e[1] for _, e in extra}
        for k_ in (dirty[0] if dirty else []):
            ctx.check(k_ in refreshed, "status.extra.missing", lambda: f"{where}: {k_} was written before the market update (has_update set) but its status was not refreshed again before update(); refreshed: {sorted(refreshed)}", case)
        for i, e in extra:
            labels.add("second_refresh")
            ctx.check(pos["on"] < i < first_upd, "status.extra.position", lambda: f"{where}: market status of {e[1]} refreshed outside on_bar..update", case)
            ctx.check(e[2] == ts, "status.extra.timestamp", lambda: f"{where}: {e[1]} refreshed with timestamp {e[2]}", case)
            ctx.check(e[1] in written, "status.extra.unwritten", lambda: f"{where}: {e[1]} refreshed a second time although nothing was written to it in this bar", case)
        # 5. records: stamped with this bar; accepted recording ops produced >= 1; notify = records of this bar in order, once, after after_bar
        recs = [(i, e) for i, e in enumerate(seg) if e[0] == "record"]
        n_records += len(recs)
        for i, e in recs:
            ctx.check(pd.Timestamp(e[2]) == ts, "record.timestamp", lambda: f"{where}: {type(e[1]).__name__} stamped {e[2]}", case)
            ph = max((p for p in pos if pos[p] < i), key=lambda p: pos[p], default="init")
            inside_update = any(j < i for j, _ in upd) and i < pos["after"]
            inside_notify = any(j < i for j, e2 in enumerate(seg) if e2[0] == "notify")
            labels.add("update.record" if inside_update else "phase.notify.record" if inside_notify else f"phase.{ph}.record")
        nots = [(i, e[1]) for i, e in enumerate(seg) if e[0] == "notify"]
        ctx.check([id(x) for _, x in nots] == [id(e[1]) for _, e in recs], "notify.sequence", lambda: f"{where}: notified {[type(x).__name__ for _, x in nots]}, recorded {[type(e[1]).__name__ for _, e in recs]}", case)
        # notifications come after after_bar (operations issued from inside notify() record - and are notified - in the same bar)
        ctx.check(all(i > pos["after"] for i, _ in nots), "notify.position", lambda: f"{where}: notify before the end of the bar", case)
        late = [type(e[1]).__name__ for i, e in recs if nots and i > nots[-1][0]] if nots else []
        ctx.check(not late, "notify.undelivered", lambda: f"{where}: records made during notification were not delivered in this bar: {late}", case)
        # ops: accepted => record(s) between the previous event and the op marker
        prev = 0
        for i, e in enumerate(seg):
            if e[0] == "op":
                op, outc = e[1], e[2]
                got = [x for x in seg[prev:i] if x[0] == "record"]
                if outc == "rejected":
                    labels.add("rejected.op")
                if outc == "ok" and (op[2], op[3]) in RECORDING and _nondegenerate(op):
                    ctx.check(len(got) >= 1, "record.missing", lambda: f"{where}: accepted {op[2:]} produced no action record", case)
                prev = i + 1
            elif e[0] in ("phase", "update"):
                prev = i + 1
    # ---- the action list and the account history
    all_recs = [e[1] for e in ev if e[0] == "record"]
    ctx.check([id(x) for x in a.actions] == [id(x) for x in all_recs], "actions.list", lambda: f"Actuator.actions has {len(a.actions)} records, {len(all_recs)} were recorded", case)
    df = a.account_status_df
    ctx.check(list(df.index) == bars, "history.index", lambda: f"account history index {list(df.index)[:5]} vs bars {bars[:5]}", case)
    ctx.check([pd.Timestamp(s.timestamp) for s in a.account_status] == bars, "history.timestamps", "AccountStatus timestamps differ from the bars", case)
    for t in u.price_frame.columns:
        col = ("price", t)
        if col in df.columns:
            exp = [u.bar_price(i, t) for i in range(len(bars))]
            ctx.check(list(df[col]) == exp, "history.prices", lambda: f"price column {t}: {list(df[col])[:4]} vs price frame {exp[:4]}", case)
        else:
            ctx.fail("history.price_column_missing", f"no price column for {t} in the account history", case)
    nontrivial = len(bars) >= 2 and (len(keys) >= 2 or case["k"] != 1 or n_records >= 1)
    ctx.case(case, nontrivial, sorted(labels), key=[case["order"], case["k"], case["start"], case["n"], case["prog"]])


def _nondegenerate(op):
    args = op[4:]
    if op[2] in ("uni", "squni") and op[3] in ("remove", "collect"):
        return False  # 'skip' when there is no position is reported as skip; a remove of zero liquidity still records
    for x in args:
        if isinstance(x, str) and x in ("0",):
            return False
    return True


def shards(tier, seed):
    n = 110 if tier == "quick" else 2200
    return [{"sub": "trace", "idx": i, "n": n, "seed": derive_seed(seed, PROPERTY, "trace", i)} for i in range(16)]


def run_shard(spec):
    ctx = Ctx(PROPERTY, spec["sub"])
    v = run_given(ctx, st_universe("loop"), body, spec["n"], spec["seed"])
    return ctx.result(v)


def replay(rec):
    return replay_body(PROPERTY, body, rec["case"], rec["sub"])
