"""C08 — per-bar LP fee = volume x fee rate x in-range path fraction x liquidity share (through the real bar loop)."""
from decimal import Decimal
from fractions import Fraction

import pandas as pd
from hypothesis import strategies as st

from vf import world
from vf.engine import Ctx, derive_seed, replay_body, run_given

PROPERTY = "C08"
RULE = (
    "real Actuator.run over loader-shaped frames (int64 ticks, Decimal volumes and liquidity) with generated tick paths "
    "placed relative to the position's range (stationary, drifting, closing exactly on the lower / upper bound, one tick "
    "inside / outside, jumping across the whole range both ways), 2-14 minute rows, bar interval 1 or 5 minutes, either "
    "token orientation, decimals {6,8,18}^2, three fee tiers, generated pool liquidity and volumes per bar, 1-3 positions "
    "added in before_bar / on_bar of a generated bar (some removed later) and unrelated same-bar operations (swaps, a "
    "far-away position opened / closed, collects). The growth of pending_amount0/1 across update() of every bar is "
    "compared with the formula. Non-trivial = a bar whose path crosses a range bound while the position is alive."
)
ASSUMPTIONS = [
    "share of active liquidity = own / (pool + sum of all own positions' liquidity), which is 'own / (pool + own)' for a single position and never more otherwise",
    "for bar 0 the path starts at the bar's own close (there is no previous bar)",
    "resampled bars: volume = sum, close = last, pool liquidity = last of the minute rows in the bin (the documented LINE_RULES)",
]
MIN_NONTRIVIAL = {"quick": 2000, "thorough": 40000}
REQUIRED_LABELS = ["cross.into", "cross.out", "cross.over", "close.on_lower", "close.on_upper", "stationary.in", "stationary.on_upper", "write_in_bar", "write_in_crossing_bar", "added.on_bar", "added.before_bar", "interval.5", "multi_position", "out_all_bar", "write_after_update", "u.earning", "u.lent_position.earning"]

FEES = {"0.05": 10, "0.3": 60, "1": 200}


@st.composite
def st_case(draw):
    d0, d1 = draw(st.sampled_from([6, 8, 18])), draw(st.sampled_from([6, 8, 18]))
    fee = draw(st.sampled_from(["0.05", "0.05", "0.3", "1"]))
    sp = FEES[fee]
    interval = draw(st.sampled_from([1, 1, 1, 5]))
    nb = draw(st.integers(2, 8))
    n_min = nb * interval - (draw(st.integers(0, interval - 1)) if interval > 1 else 0)
    center = draw(st.integers(-3000, 3000)) * sp
    width = draw(st.integers(1, 20)) * sp
    lo, hi = center, center + width
    anchors = [lo, lo - 1, lo + 1, hi, hi - 1, hi + 1, lo + width // 2, lo - width, hi + width, lo - 3 * width - 7, hi + 2 * width + 5]
    ticks = []
    t = draw(st.sampled_from(anchors))
    for _ in range(n_min):
        mv = draw(st.sampled_from(["stay", "stay", "anchor", "anchor", "drift"]))
        if mv == "anchor":
            t = draw(st.sampled_from(anchors))
        elif mv == "drift":
            t = t + draw(st.integers(-width, width))
        ticks.append(t)
    liqs = [draw(st.sampled_from([1, 10**6, 10**12, 10**18, 123456789012345678901])) for _ in range(n_min)]
    in0 = [draw(st.sampled_from([0, 1, 10**d0, 7 * 10 ** (d0 + 3) + 13])) for _ in range(n_min)]
    in1 = [draw(st.sampled_from([0, 1, 10**d1, 3 * 10 ** (d1 + 4) + 1])) for _ in range(n_min)]
    positions = [{"lower": lo, "upper": hi, "add_bar": draw(st.integers(0, min(2, nb - 1))), "phase": draw(st.sampled_from(["before", "on"])), "amt": draw(st.sampled_from(["1", "1000", "0.001"])), "remove_bar": draw(st.sampled_from([None, None, nb - 1]))}]
    for _ in range(draw(st.integers(0, 2))):
        l2 = center + draw(st.integers(-15, 15)) * sp
        positions.append({"lower": l2, "upper": l2 + draw(st.integers(1, 25)) * sp, "add_bar": draw(st.integers(0, nb - 1)), "phase": draw(st.sampled_from(["before", "on"])), "amt": draw(st.sampled_from(["1", "50"])), "remove_bar": draw(st.sampled_from([None, None, nb - 1]))})
    extra = [{"bar": draw(st.integers(0, nb - 1)), "phase": draw(st.sampled_from(["before", "on", "after"])), "kind": draw(st.sampled_from(["buy", "sell", "far_add", "far_remove", "collect"]))} for _ in range(draw(st.integers(0, 5)))]
    return {"d0": d0, "d1": d1, "t0q": draw(st.booleans()), "fee": fee, "interval": interval, "start_min": draw(st.integers(0, 50)) * interval, "ticks": ticks, "liqs": [str(x) for x in liqs], "in0": [str(x) for x in in0], "in1": [str(x) for x in in1], "positions": positions, "extra": extra}


def frac(p, c, lo, hi) -> Fraction:
    if p == c:
        return Fraction(1 if lo <= c < hi else 0)
    a, b = min(p, c), max(p, c)
    inside = max(0, min(b, hi) - max(a, lo))
    return Fraction(inside, b - a)


def body(case, ctx: Ctx):
    from demeter import Actuator, MarketInfo, Strategy
    from demeter.uniswap import PositionInfo, UniLpMarket

    pool = world.uni_pool(case["d0"], case["d1"], case["t0q"], case["fee"])
    sp = FEES[case["fee"]]
    iv = case["interval"]
    n_min = len(case["ticks"])
    df = world.uni_frame(pool, case["start_min"], case["ticks"], [int(x) for x in case["liqs"]], [int(x) for x in case["in0"]], [int(x) for x in case["in1"]])
    # per-bar aggregates by integer binning (sum / last), independent of the resampler
    first_bin = case["start_min"] // iv
    bins = {}
    for k in range(n_min):
        bins.setdefault((case["start_min"] + k) // iv - first_bin, []).append(k)
    nb = len(bins)
    close = [case["ticks"][bins[b][-1]] for b in range(nb)]
    pliq = [int(case["liqs"][bins[b][-1]]) for b in range(nb)]
    v0 = [sum(int(case["in0"][k]) for k in bins[b]) for b in range(nb)]
    v1 = [sum(int(case["in1"][k]) for k in bins[b]) for b in range(nb)]
    a = Actuator()
    m = UniLpMarket(MarketInfo("uni"), pool)
    a.broker.add_market(m)
    m.data = df
    a.broker.set_balance(pool.token0, Decimal(10) ** 14)
    a.broker.set_balance(pool.token1, Decimal(10) ** 14)
    a.set_price(m.get_price_from_data())
    a.interval = f"{iv}min"
    keys = [PositionInfo(p["lower"], p["upper"]) for p in case["positions"]]
    far = PositionInfo(((min(case["ticks"]) - 60000) // sp) * sp, ((min(case["ticks"]) - 50000) // sp) * sp)
    pre, post, wrote = {}, {}, {}
    errors = []

    def snap():
        return {(k.lower_tick, k.upper_tick): (p.liquidity, p.pending_amount0, p.pending_amount1) for k, p in m.positions.items()}

    def ops(phase, bar):
        for i, p in enumerate(case["positions"]):
            if p["add_bar"] == bar and p["phase"] == phase:
                try:
                    m.add_liquidity_by_tick(p["lower"], p["upper"], Decimal(p["amt"]) * 1000, Decimal(p["amt"]) * 1000)
                    wrote[bar] = True
                except Exception as e:  # noqa
                    errors.append(("add", bar, repr(e)))
            if p["remove_bar"] == bar and phase == "on" and keys[i] in m.positions and bar > p["add_bar"]:
                try:
                    m.remove_liquidity(keys[i], collect=False)
                    wrote[bar] = True
                except Exception as e:  # noqa
                    errors.append(("remove", bar, repr(e)))
        for x in case["extra"]:
            if x["bar"] == bar and x["phase"] == phase:
                try:
                    if x["kind"] == "buy":
                        m.buy(Decimal("0.01"))
                    elif x["kind"] == "sell":
                        m.sell(Decimal("0.01"))
                    elif x["kind"] == "far_add":
                        m.add_liquidity_by_tick(far.lower_tick, far.upper_tick, Decimal(5), Decimal(5))
                    elif x["kind"] == "far_remove":
                        if far in m.positions:
                            m.remove_liquidity(far)
                    elif x["kind"] == "collect":
                        for k in list(m.positions):
                            m.collect_fee(k)
                    wrote[bar] = True
                except Exception as e:  # noqa
                    errors.append((x["kind"], bar, repr(e)))

    class S(Strategy):
        def before_bar(self, snapshot):
            ops("before", snapshot.row_id)

        def on_bar(self, snapshot):
            ops("on", snapshot.row_id)
            pre[snapshot.row_id] = snap()

        def after_bar(self, snapshot):
            post[snapshot.row_id] = snap()
            w = dict(wrote)
            ops("after", snapshot.row_id)  # writes after the fee update of this bar: must not disturb the next bar's path
            if snapshot.row_id not in w and wrote.pop(snapshot.row_id, None):
                labels.add("write_after_update")

    a.strategy = S()
    labels = {f"interval.{iv}"}
    ok = ctx.guarded("loop", case, lambda: (world.quiet_run(a), True)[1])
    if ok is None:
        ctx.case(case, False, sorted(labels))
        return
    ctx.check(len(post) == nb, "bars", lambda: f"{len(post)} bars visited, {nb} expected", case)
    rate = Fraction(Decimal(case["fee"])) / 100
    nontrivial = False
    for b in range(min(nb, len(post))):
        p = close[b - 1] if b > 0 else close[b]
        c = close[b]
        alive = {k: v for k, v in pre[b].items() if v[0] > 0}
        own = sum(v[0] for v in pre[b].values())
        if len(alive) > 1:
            labels.add("multi_position")
        for k, (L, p0, p1) in pre[b].items():
            if k not in post[b]:
                ctx.fail("position.vanished", f"position {k} disappeared during update of bar {b}", case)
                continue
            g0, g1 = post[b][k][1] - p0, post[b][k][2] - p1
            ctx.check(post[b][k][0] == L, "liquidity.changed", lambda: f"update() changed the liquidity of {k}", case)
            lo, hi = k
            fr_ = frac(p, c, lo, hi)
            denom = pliq[b] + own
            share = Fraction(L, denom) if denom else Fraction(0)
            e0 = Fraction(v0[b], 10 ** case["d0"]) * rate * fr_ * share
            e1 = Fraction(v1[b], 10 ** case["d1"]) * rate * fr_ * share
            is_main = k == (case["positions"][0]["lower"], case["positions"][0]["upper"])
            if L > 0 and is_main:
                if p != c and ((p < lo) != (c < lo) or (p >= hi) != (c >= hi)):
                    pin = lo <= p < hi
                    cin = lo <= c < hi
                    labels.add("cross.over" if (not pin and not cin) else ("cross.into" if cin else "cross.out"))
                    nontrivial = True
                    if wrote.get(b):
                        labels.add("write_in_crossing_bar")
                if c == lo:
                    labels.add("close.on_lower")
                if c == hi:
                    labels.add("close.on_upper")
                if p == c:
                    labels.add("stationary.in" if lo <= c < hi else ("stationary.on_upper" if c == hi else "stationary.out"))
                if fr_ == 0 and p != c:
                    labels.add("out_all_bar")
                if wrote.get(b):
                    labels.add("write_in_bar")
                pb = case["positions"][0]
                if pb["add_bar"] == b:
                    labels.add(f"added.{pb['phase']}_bar" if pb["phase"] == "on" else "added.before_bar")
            sig = "fee"
            where = f"bar {b} path {p}->{c} range [{lo},{hi}) L={L} pool={pliq[b]} own_total={own} volume=({v0[b]},{v1[b]}) wrote_in_bar={bool(wrote.get(b))}"
            for nm, g, e, pend in (("token0", g0, e0, post[b][k][1]), ("token1", g1, e1, post[b][k][2])):
                gF = Fraction(g)
                ulp = Fraction(abs(pend)) / 10**33  # pending amounts are 35-digit decimals: the growth is known to their last place
                ctx.check(gF >= -ulp, f"{sig}.negative", lambda: f"{nm} fee {g} negative: {where}", case)
                if fr_ == 0:
                    ctx.check(abs(gF) <= ulp, f"{sig}.out_of_range_earned", lambda: f"{nm} fee {g} although the path never enters the range: {where}", case)
                ctx.check(abs(gF - e) <= abs(e) / 10**25 + Fraction(1, 10**45) + ulp, f"{sig}.amount", lambda: f"{nm} fee {g} vs volume x rate x fraction {fr_} x share = {float(e)!r}: {where}", case)
                single = Fraction(L, pliq[b] + L) if pliq[b] + L else Fraction(0)
                bound = Fraction(v0[b] if nm == "token0" else v1[b], 10 ** (case["d0"] if nm == "token0" else case["d1"])) * rate * fr_ * single
                ctx.check(gF <= bound * (1 + Fraction(1, 10**25)) + Fraction(1, 10**45) + ulp, f"{sig}.above_single_share", lambda: f"{nm} fee {g} exceeds own/(pool+own) share {float(bound)!r}: {where}", case)
    ctx.case(case, nontrivial, sorted(labels))


# ------------------------------------------------------------------ the same formula inside multi-market universes
class FeeObs:
    """pending amounts of every pool position at the end of on_bar and at the start of after_bar (= across update())"""

    def __init__(self):
        self.pre, self.post = {}, {}

    @staticmethod
    def snap(u):
        return {key: {(p.lower_tick, p.upper_tick): (pos.liquidity, pos.pending_amount0, pos.pending_amount1, bool(pos.transferred)) for p, pos in u.m[key].positions.items()} for key in ("uni", "squni") if key in u.m}

    def on_built(self, u): ...
    def op_done(self, u, phase, op, out): ...
    def on_notify(self, u, action): ...
    def on_action(self, u, action): ...
    def on_finalize(self, u): ...

    def phase_start(self, u, phase, snap):
        if phase == "after":
            self.post[snap.row_id] = self.snap(u)

    def phase_end(self, u, phase, snap):
        if phase == "on":
            self.pre[snap.row_id] = self.snap(u)


def body_universe(case, ctx: Ctx):
    from vf import multi

    obs = FeeObs()
    u = ctx.guarded("build", case, multi.Universe, case, [obs])
    if u is None:
        ctx.case(case, False, ["build.failed"])
        return
    labels = {f"u.interval.{case['k']}"}
    ok = ctx.guarded("loop", case, lambda: (world.quiet_run(u.actuator), True)[1])
    if ok is None:
        ctx.case(case, False, sorted(labels))
        return
    nontrivial = False
    for key in ("uni", "squni"):
        if key not in u.m:
            continue
        fr_ = u.frames[key]
        pool = u.m[key].pool_info
        rate = Fraction(pool.fee_rate)
        d0, d1 = pool.token0.decimal, pool.token1.decimal
        closes = [int(fr_["closeTick"].iloc[rows[-1]]) for rows in u.bins]
        for b, rows in enumerate(u.bins):
            if b not in obs.pre or b not in obs.post:
                continue
            p, c = (closes[b - 1] if b > 0 else closes[b]), closes[b]
            pliq = int(fr_["currentLiquidity"].iloc[rows[-1]])
            v0 = sum(int(fr_["inAmount0"].iloc[j]) for j in rows)
            v1 = sum(int(fr_["inAmount1"].iloc[j]) for j in rows)
            pre, post = obs.pre[b][key], obs.post[b][key]
            own = sum(x[0] for x in pre.values())
            for k_, (L, p0, p1, lent) in pre.items():
                if k_ not in post or post[k_][0] != L:
                    labels.add("u.position_changed_in_update")  # redeemed by a vault liquidation during update()
                    continue
                lo, hi = k_
                f = frac(p, c, lo, hi)
                share = multi.fr(L) / multi.fr(pliq + own) if pliq + own else Fraction(0)
                if lent:
                    labels.add("u.lent_position")
                if L > 0 and f > 0 and (v0 or v1):
                    nontrivial = True
                    labels.add("u.earning")
                    if lent:
                        labels.add("u.lent_position.earning")
                for nm, g, vol, dec, pend in (("token0", post[k_][1] - p0, v0, d0, post[k_][1]), ("token1", post[k_][2] - p1, v1, d1, post[k_][2])):
                    e = Fraction(vol, 10**dec) * rate * f * share
                    ulp = Fraction(abs(pend)) / 10**33
                    ctx.check(abs(Fraction(g) - e) <= abs(e) / 10**25 + Fraction(1, 10**45) + ulp, "universe.fee.amount",
                              lambda: f"{key} bar {b} ({u.bars[b]}): position {k_}{' (lent to a vault)' if lent else ''} L={L} earned {g} {nm}; volume {vol} x rate x path fraction {f} ({p}->{c}) x {L}/({pliq}+{own}) = {float(e)!r}", case)
    ctx.case(case, nontrivial, sorted(labels), key=[case["order"], case["k"], case["prog"], case.get("uni"), case.get("sq")])


def st_universe_case():
    from vf.gen.multi import st_universe

    return st_universe("loop", kinds=["uni", "sq", "aave", "opt"], need=None, max_bars=6, max_ops=10)


BODIES = {"loop": (st_case, body), "universe": (st_universe_case, body_universe)}


def shards(tier, seed):
    n = 350 if tier == "quick" else 7000
    nu = 60 if tier == "quick" else 1200
    return [{"sub": "loop", "idx": i, "n": n, "seed": derive_seed(seed, PROPERTY, "loop", i)} for i in range(16)] + [{"sub": "universe", "idx": i, "n": nu, "seed": derive_seed(seed, PROPERTY, "universe", i)} for i in range(16)]


def run_shard(spec):
    ctx = Ctx(PROPERTY, spec["sub"])
    strat, fn = BODIES[spec["sub"]]
    v = run_given(ctx, strat(), fn, spec["n"], spec["seed"])
    return ctx.result(v)


def replay(rec):
    return replay_body(PROPERTY, BODIES[rec.get("sub") or "loop"][1], rec["case"], rec["sub"])
