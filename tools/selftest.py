#!/venv/bin/python
"""Sensitivity self-test: apply each mutant (mutants/table.py) to a scratch copy of /repo's demeter package
outside /repo and /verif, run the quick check against it through DEMETER_SRC and expect exit 1.
Not a registered check.  usage: tools/selftest.py [PROP ...] [--id MUTANT_ID] [--scale X]"""
import argparse, os, shutil, subprocess, sys, tempfile, time
HERE = os.path.dirname(os.path.dirname(os.path.abspath(__file__)))
sys.path.insert(0, HERE)
from mutants.table import MUTANTS

ap = argparse.ArgumentParser()
ap.add_argument("props", nargs="*")
ap.add_argument("--id")
ap.add_argument("--scale", default="1")
ap.add_argument("--seed", default="1")
args = ap.parse_args()
rows = []
for m in MUTANTS:
    if args.props and m["prop"] not in args.props:
        continue
    if args.id and m["id"] != args.id:
        continue
    scratch = tempfile.mkdtemp(prefix="vfmut-", dir="/tmp")
    try:
        shutil.copytree("/repo/demeter", os.path.join(scratch, "demeter"))
        path = os.path.join(scratch, m["file"])
        src = open(path).read()
        if src.count(m["old"]) < 1:
            rows.append((m["prop"], m["id"], "STALE (pattern not found)", 0))
            continue
        open(path, "w").write(src.replace(m["old"], m["new"], m.get("count", 1)))
        t0 = time.time()
        env = dict(os.environ, DEMETER_SRC=scratch, VERIF_SEED=args.seed, VF_SCALE=args.scale, VF_NO_EVIDENCE="1", VF_REPLAY_DIR=scratch)
        p = subprocess.run([os.path.join(HERE, "check"), m["prop"], "--tier", "quick"], env=env, capture_output=True, text=True)
        sig = [l for l in p.stdout.splitlines() if l.startswith("DETAIL")][:2]
        rows.append((m["prop"], m["id"], {0: "MISSED", 1: "caught", 2: "HARNESS-ERROR"}.get(p.returncode, str(p.returncode)), time.time() - t0, sig))
        if p.returncode == 2:
            print(p.stdout[-1500:], p.stderr[-1500:])
    finally:
        shutil.rmtree(scratch, ignore_errors=True)
for r in rows:
    print(f"{r[0]} {r[1]:40s} {r[2]:14s} {r[3]:.0f}s {' | '.join(x[:110] for x in (r[4] if len(r) > 4 else []))}")
# replays written by mutant runs are not findings on the real tree
sys.exit(0 if all(r[2] == "caught" for r in rows) else 1)
