"""Multi-market universe: real demeter markets of every family behind one real Actuator / Broker, built from generated
plain data, driven by a scripted strategy that executes a generated *program* (operations as data, with run-time
selectors so that each operation meets the state it needs).  Shared by C01, C02, C03, C04, C05 and C19.

case = {
  "start": minute offset from BASE_DAY, "n": number of minute rows, "k": bar interval in minutes,
  "quote": "USD" | "USDC" | "WETH",                       account quote token
  "order": ["uni", "aave", "sq", "opt", "glp", "gm"] subset, in the order the markets are added ("sq" adds its pool first)
  "eth": [usd price of ETH per minute], "osq": [ETH per oSQTH per minute], "avax": [usd], "usdc": "1" | "0.9993" ...
  "jitter": {token: factor}                                external price frame deliberately off the pools' own prices
  "uni": {"usdc_first", "quote", "fee", "noise": [tick offsets], "liqs", "in0", "in1"},
  "sq":  {"noise", "liqs", "in0", "in1", "nf": [...]},
  "aave": {"tokens": [risk rows], "li": {tok: [...]}, "bi": {tok: [...]}, "lr": {tok: str}, "br": {tok: str}},
  "opt": {"instruments": [{"type", "strike", "exp_min", "marks": [ticks per hour], "listed_at_expiry"}], "book": sizes},
  "glp": {"tokens": [...], "glp": [...], "gp": [...], "usdg": ..., "interval": float},
  "gm":  {"long": [...], "short": [...], "pv_factor": [...], "supply": ..., "impact": ..., "virt": bool},
  "wallet": {token: amount},
  "prog": [[bar, phase, market, op, args...], ...]         phase in before | trigger | on | after
}
"""
from __future__ import annotations

import copy
import math
from decimal import Decimal, localcontext
from fractions import Fraction

import pandas as pd

from vf import world
from vf.ref import liqmath, tickmath

D = Decimal
F = Fraction
DECS = {"USDC": 6, "WETH": 18, "OSQTH": 18, "DAI": 18, "ETH": 18, "WAVAX": 18, "WBTC": 8}
PHASES = ("before", "trigger", "on", "after")
LOG1 = math.log(1.0001)
AAVE_COLS = ["liquidity_rate", "stable_borrow_rate", "variable_borrow_rate", "liquidity_index", "variable_borrow_index"]
GM_COLS = ["longAmount", "shortAmount", "virtualSwapInventoryLong", "virtualSwapInventoryShort", "poolValue", "marketTokensSupply", "impactPoolAmount", "longPrice", "shortPrice", "indexPrice"]
P30 = 10**30


def fr(x) -> Fraction:
    if isinstance(x, Fraction):
        return x
    if isinstance(x, (Decimal, int)):
        return Fraction(x)
    if isinstance(x, float):
        return Fraction(float(x))
    return Fraction(str(x))


def dq(x, q="0.00000001") -> Decimal:
    with localcontext() as c:
        c.prec = 60
        return D(x).quantize(D(q))


# ---------------------------------------------------------------------------------------------- bins / bars
def bins_of(case):
    """minute row numbers of every bar, by integer binning anchored at midnight (independent of the resampler)"""
    k, s = case["k"], case["start"]
    first = s // k
    out = {}
    for j in range(case["n"]):
        out.setdefault((s + j) // k - first, []).append(j)
    return [out[b] for b in sorted(out)]


def bar_times(case):
    return world.bar_grid(case["start"], case["n"], case["k"])


# ---------------------------------------------------------------------------------------------- universe
class Obs:
    """observer interface of the scripted strategy (all optional)"""

    def on_built(self, u): ...  # frames exist, nothing has been handed to the Actuator yet
    def phase_start(self, u, phase, snap): ...
    def op_done(self, u, phase, op, outcome): ...
    def phase_end(self, u, phase, snap): ...
    def on_notify(self, u, action): ...
    def on_action(self, u, action): ...
    def on_finalize(self, u): ...


class Universe:
    def __init__(self, case, observers=(), actuator=True, frames=None, price_frame=None, attach=True):
        from demeter import Actuator, Broker, MarketInfo, MarketTypeEnum, TokenInfo

        self.case = case
        self.obs = list(observers)
        self.tok = {n: TokenInfo(n, d) for n, d in DECS.items()}
        self.n, self.k, self.start = case["n"], case["k"], case["start"]
        self.idx = world.minute_index(self.start, self.n)
        self.bins = bins_of(case)
        self.bars = bar_times(case)
        self.m = {}
        self.frames = {}
        self.names = {}
        self.attach = attach
        self.actuator = Actuator() if actuator else None
        self.broker = self.actuator.broker if actuator else Broker(record_action_callback=self._static_action)
        self.static_actions = []
        self.outcomes = []
        self.bar = -1
        self.prices = None
        self.eth = [D(x) for x in case["eth"]]
        self.osq = [D(x) for x in case["osq"]]
        self.nf = [D(x) for x in case["sq"]["nf"]] if "sq" in case else None
        self._given = frames or {}  # re-use supplied frame objects (a second run on the very same inputs)
        self._build_markets()
        if price_frame is not None:
            self.price_frame = price_frame
        else:
            self._build_prices()
        if attach:
            for t, a in case["wallet"].items():
                if case.get("sparse_wallet") and D(a) == 0:
                    continue
                self.broker.set_balance(self.tok[t], D(a))
        for o in self.obs:
            o.on_built(self)
        if actuator:
            a = self.actuator
            # prices may be handed over in one piece or in consecutive time chunks (a second set_price call appends rows)
            cut = len(self.price_frame) // 2 if case.get("price_chunks") and len(self.price_frame) >= 2 else None
            parts = [self.price_frame] if cut is None else [self.price_frame.iloc[:cut], self.price_frame.iloc[cut:]]
            for part in parts:
                if case["quote"] == "USD":
                    a.set_price(part)
                else:
                    # the (frame, quote token) form that UniLpMarket.get_price_from_data() returns
                    a.set_price((part, self.tok[case["quote"]]))
            a.interval = f"{self.k}min"
            a.strategy = make_script(self)

    def _static_action(self, action):
        self.static_actions.append(action)
        for o in self.obs:
            o.on_action(self, action)

    # ---- markets
    def _build_markets(self):
        from demeter import MarketInfo, MarketTypeEnum
        from demeter.aave import AaveV3Market
        from demeter.deribit import DeribitOptionMarket
        from demeter.gmx import GmxMarket, GmxV2Market
        from demeter.gmx._typing2 import GmxV2Pool
        from demeter.squeeth.market import SqueethMarket
        from demeter.uniswap import UniLpMarket, UniV3Pool

        c = self.case
        T = self.tok
        pre = {}
        # the two pools first: in a `consistent` case their own prices define the ETH and oSQTH prices of every other frame
        if "uni" in c["order"]:
            u = c["uni"]
            t0, t1 = (T["USDC"], T["WETH"]) if u["usdc_first"] else (T["WETH"], T["USDC"])
            pool = UniV3Pool(t0, t1, float(u["fee"]), T[u["quote"]])
            mk = UniLpMarket(MarketInfo("uni"), pool)
            ticks = self._uni_ticks(pool, u["noise"])
            mk.data = self._given["uni"] if "uni" in self._given else world.uni_frame(pool, self.start, ticks, [int(x) for x in u["liqs"]], [int(x) for x in u["in0"]], [int(x) for x in u["in1"]])
            pre["uni"] = mk
            if c.get("consistent"):
                usdc = D(c["usdc"])
                self.eth = [(p * usdc if u["quote"] == "USDC" else usdc / p) for p in mk.data["price"]]
        if "sq" in c["order"]:
            s = c["sq"]
            pool = UniV3Pool(T["WETH"], T["OSQTH"], 0.3, T["WETH"])
            pm = UniLpMarket(MarketInfo("squni"), pool)
            ticks = [int(round(-math.log(float(o)) / LOG1)) + d for o, d in zip(c["osq"], s["noise"])]
            pm.data = self._given["squni"] if "squni" in self._given else world.uni_frame(pool, self.start, ticks, [int(x) for x in s["liqs"]], [int(x) for x in s["in0"]], [int(x) for x in s["in1"]])
            pre["squni"] = pm
            if c.get("consistent"):
                self.osq = list(pm.data["price"])
        for key in c["order"]:
            if key == "uni":
                self._add("uni", pre["uni"])
            elif key == "sq":
                s = c["sq"]
                pm = pre["squni"]
                self._add("squni", pm)
                sm = SqueethMarket(MarketInfo("sq", MarketTypeEnum.squeeth), pm)
                if c.get("index_eq_mark"):
                    # strict regime: normalisation factor chosen so that the index price of oSQTH equals its pool (mark) price
                    s = dict(s, nf=[format(o * 10000 / e, "f") for o, e in zip(self.osq, self.eth)])
                    self.nf = [D(x) for x in s["nf"]]
                sm.data = self._given["sq"] if "sq" in self._given else pd.DataFrame({"norm_factor": pd.Series([D(x) for x in s["nf"]], index=self.idx, dtype=object), "WETH": pd.Series(list(self.eth), index=self.idx, dtype=object), "OSQTH": pd.Series(list(self.osq), index=self.idx, dtype=object)}, index=self.idx)
                self._add("sq", sm)
            elif key == "aave":
                from vf import aave as aw

                a = c["aave"]
                toks = [T[t["name"]] for t in a["tokens"]]
                am = AaveV3Market(MarketInfo("aave", MarketTypeEnum.aave_v3), aw.risk_file(a["tokens"]), toks)
                cols, data = [], {}
                for t in a["tokens"] if "aave" not in self._given else []:
                    nme = t["name"]
                    vals = {"liquidity_rate": [D(a["lr"][nme])] * self.n, "stable_borrow_rate": [D(a["br"][nme])] * self.n, "variable_borrow_rate": [D(a["br"][nme])] * self.n,
                            "liquidity_index": [D(x) for x in a["li"][nme]], "variable_borrow_index": [D(x) for x in a["bi"][nme]]}
                    for col in AAVE_COLS:
                        data[(nme, col)] = pd.Series(vals[col], index=self.idx, dtype=object)
                if "aave" in self._given:
                    am.data = self._given["aave"]
                else:
                    am.data = pd.DataFrame(data, index=self.idx)
                    am.data.columns = pd.MultiIndex.from_tuples(list(data.keys()))
                self._add("aave", am)
            elif key == "opt":
                om = DeribitOptionMarket(MarketInfo("opt", MarketTypeEnum.deribit_option), DeribitOptionMarket.ETH, data=self._given["opt"] if "opt" in self._given else self._opt_frame())
                self._add("opt", om)
            elif key == "glp":
                g = c["glp"]
                gt = [T[x.upper()] for x in g["tokens"]]
                gm = GmxMarket(MarketInfo("glp", MarketTypeEnum.gmx_v1), tokens=gt)
                gm.data = self._given["glp"] if "glp" in self._given else self._glp_frame()
                self._add("glp", gm)
            elif key == "gm":
                gm2 = GmxV2Market(MarketInfo("gm", MarketTypeEnum.gmx_v2), GmxV2Pool(T["WETH"], T["USDC"], T["WETH"]), data=self._given["gm"] if "gm" in self._given else self._gm_frame())
                self._add("gm", gm2)
            else:
                raise ValueError(key)

    def _add(self, key, market):
        self.m[key] = market
        self.frames[key] = market.data  # the supplied frame object (a resampling run replaces market.data, not this)
        if self.attach:
            if self.case.get("reused_markets"):
                # the market object has served another broker before (a second backtest with the same market instance)
                from demeter import Broker

                Broker(record_action_callback=lambda a: None).add_market(market)
            self.broker.add_market(market)

    def _uni_ticks(self, pool, noise):
        """ticks following the ETH path: token1/token0 atomic price"""
        out = []
        usdc_first = pool.token0.name == "USDC"
        for e, d in zip(self.case["eth"], noise):
            p = float(D(e) / D(self.case["usdc"]))  # USDC per WETH
            atomic = (1 / p) * 10 ** (18 - 6) if usdc_first else p * 10 ** (6 - 18)
            out.append(int(round(math.log(atomic) / LOG1)) + d)
        return out

    # ---- deribit
    def opt_hours(self):
        h0 = self.start // 60
        h1 = (self.start + self.n - 1) // 60
        return list(range(h0, h1 + 1))

    def opt_names(self):
        return [f"ETH-X{i}-{ins['strike']}-{'C' if ins['type'] == 'CALL' else 'P'}" for i, ins in enumerate(self.case["opt"]["instruments"])]

    def opt_underlying(self, h):
        j = min(max(h * 60 - self.start, 0), self.n - 1)
        return float(dq(self.eth[j], "0.01"))

    def opt_tick(self):
        """price grid of the option book: Deribit's 0.0005, or a binary-exact 1/2048 (levels can sit exactly on mark x multiple)"""
        return D(1) / D(2048) if self.case["opt"].get("dyadic") else D("0.0005")

    def opt_listed(self, i, h):
        """is instrument i in the snapshot of hour h (gone after its settlement hour; optionally delisted in it)"""
        ins = self.case["opt"]["instruments"][i]
        hs = self.opt_hours()
        settle_h = -(-ins["exp_min"] // 60)
        if h > max(settle_h, hs[0]):
            return False
        if h == settle_h and h > hs[0] and not ins["listed_at_expiry"]:
            return False
        return True

    def _opt_frame(self):
        from vf import deribit as dw

        o = self.case["opt"]
        tick = self.opt_tick()
        names = self.opt_names()
        hours = {}
        hs = self.opt_hours()
        for hi, h in enumerate(hs):
            lst = []
            for i, ins in enumerate(o["instruments"]):
                if not self.opt_listed(i, h):
                    continue
                mt = ins["marks"][hi % len(ins["marks"])]
                lst.append({"name": names[i], "type": ins["type"], "strike": ins["strike"], "expiry_h": 0, "mark": float(D(mt) * tick), "underlying": self.opt_underlying(h),
                            "asks": [[float(D(mt + 1 + j) * tick), float(sz)] for j, sz in enumerate(o["asks"])], "bids": [[float(D(max(mt - j, 1)) * tick), float(sz)] for j, sz in enumerate(o["bids"]) if mt - j >= 1], "state": "open",
                            "delta": 0.5, "gamma": 0.002})
            lst.append({"name": "ETH-FILLER-1-C", "type": "CALL", "strike": 1, "expiry_h": 0, "mark": 0.5, "underlying": self.opt_underlying(h), "asks": [[0.6, 10.0]], "bids": [[0.4, 10.0]], "state": "open"})
            hours[h] = lst
        df = dw.frame(hours)
        exp = {names[i]: dw.BASE + pd.Timedelta(minutes=ins["exp_min"]) for i, ins in enumerate(o["instruments"])}
        exp["ETH-FILLER-1-C"] = dw.BASE + pd.Timedelta(days=30)
        df["expiry_time"] = [exp[x] for x in df.index.get_level_values(1)]
        df["t"] = df["expiry_time"] - df.index.get_level_values(0)
        return df

    # ---- gmx
    def _glp_frame(self):
        import numpy as np

        g = self.case["glp"]
        rows = []
        for j in range(self.n):
            d = {}
            for t in g["tokens"]:
                usd = {"weth": D(self.eth[j]), "wavax": D(self.case["avax"][j]), "usdc": D(self.case["usdc"])}[t]
                price = int(usd * P30)
                d[f"{t}_price"] = D(price) if t in ("weth", "wavax") else price
                d[f"{t}_usdg"] = int(g["usdg"][t])
                d[f"{t}_weight"] = np.int64(g["weight"][t])
            d["usdg"] = sum(int(g["usdg"][t]) for t in g["tokens"])
            glp = D(g["glp"][j])
            with localcontext() as cx:
                cx.prec = 80
                aum = (glp * D(g["gp"][j]) * D(10**12)).quantize(D(1))
            d["glp"] = glp
            d["aum"] = aum
            d["glp_price"] = aum / glp / D(10**12)
            d["interval"] = float(g["interval"])
            rows.append(d)
        df = pd.DataFrame(rows, index=self.idx, dtype=object)
        return df

    def _gm_frame(self):
        g = self.case["gm"]
        rows = []
        for j in range(self.n):
            pl, ps = float(self.eth[j]), float(D(self.case["usdc"]))
            la, sa = float(g["long"][j]), float(g["short"][j])
            pv = (la * pl + sa * ps) * float(g["pv_factor"][j])
            rows.append([la, sa, la * 1.3 if g["virt"] else None, sa * 0.8 if g["virt"] else None, pv, float(g["supply"]), float(g["impact"]), pl, ps, pl])
        return pd.DataFrame(rows, columns=GM_COLS, index=self.idx)

    # ---- prices
    def _build_prices(self):
        c = self.case
        q = c["quote"]
        jit = c.get("jitter", {})
        cols = {}
        usd = {}
        for j in range(self.n):
            e = self.eth[j]
            row = {"WETH": e, "USDC": D(c["usdc"]), "DAI": D("1.0003"), "OSQTH": self.osq[j] * e, "WAVAX": D(c["avax"][j]), "WBTC": e * 17}
            h = (self.start + j) // 60
            row["ETH"] = D(str(self.opt_underlying(h))) if "opt" in c["order"] else e
            for t, f in jit.items():
                row[t] = row[t] * D(f)
            usd[j] = row
        for t in ("WETH", "USDC", "DAI", "OSQTH", "WAVAX", "WBTC", "ETH"):
            cols[t] = []
        for j in range(self.n):
            base = D(1) if q == "USD" else usd[j][q]
            for t in cols:
                cols[t].append(D(1) if t == q else (usd[j][t] / base if c.get("consistent") else dq(usd[j][t] / base, "0.000000000001")))
        # the price frame covers the whole hours of the option data as well (hourly loop)
        self.price_frame = pd.DataFrame({t: pd.Series(v, index=self.idx, dtype=object) for t, v in cols.items()}, index=self.idx)
        if "opt" in c["order"]:
            hs = self.opt_hours()
            full = pd.date_range(world.BASE_DAY + pd.Timedelta(hours=hs[0]), world.BASE_DAY + pd.Timedelta(hours=hs[-1] + 1), freq="1min")
            self.price_frame = self.price_frame.reindex(full).bfill().ffill()

    # ---- bar data (independent aggregation of the generated minute rows)
    def first_row(self, bar):
        return self.bins[bar][0]

    def bar_price(self, bar, token):
        """price-frame entry of the bar: first minute of the bin (the frame is resampled with first())"""
        if token == "USD":
            return D(1)
        return self.price_frame[token].loc[self.idx[self.first_row(bar)]]

    # ---- freezing (C03 / C04): put every market on the rows of one bar without running the loop
    def freeze(self, bar):
        from demeter import MarketStatus

        ts = pd.Timestamp(self.bars[bar])
        self.bar = bar
        prices = self.price_frame.loc[self.idx[self.first_row(bar)]].copy()
        prices["USD"] = D(1)
        for key, mk in self.m.items():
            mk.set_market_status(MarketStatus(ts, None), prices)
        self.prices = prices
        return prices


# ---------------------------------------------------------------------------------------------- operations
def _wal(u, t):
    tk = u.tok[t]
    return u.broker.assets[tk].balance if tk in u.broker.assets else D(0)


def _frac(x):
    return D(x)


# "everything I hold, as I read it, rounded to the token's 18 decimals" (what a caller does who rounds the displayed balance to wei)
QUANT = {"q18up": "ROUND_UP", "q18down": "ROUND_DOWN"}


def _quant(x, how):
    with localcontext() as c:
        c.prec = 60
        return D(x).quantize(D("1e-18"), rounding=QUANT[how])


def _uni_positions(mk, free_only=False):
    ks = sorted(mk.positions.keys(), key=lambda p: (p.lower_tick, p.upper_tick))
    if free_only:
        ks = [p for p in ks if not mk.positions[p].transferred]
    return ks


def run_op(u: Universe, op):
    """Execute one op (list) against the real markets. Returns the raw return value; raises whatever the code raises.
    'skip' ops (selector finds nothing) return the string 'skip'."""
    from demeter.squeeth import VaultKey

    mkt, name, args = op[2], op[3], op[4:]
    if mkt == "broker":
        prices = u.prices
        a, b, f = args
        amt = _wal(u, a) * _frac(f)
        if name == "swap_from":
            return u.broker.swap_by_from(u.tok[a], u.tok[b], amt, prices)
        return u.broker.swap_by_to(u.tok[a], u.tok[b], amt * prices[a] / prices[b], prices)
    if mkt not in u.m:
        return "skip"
    m = u.m[mkt]
    if name == "read":
        # a strategy looking at its market / account figures (a reader must never change what is reported later)
        bal = m.get_market_balance()
        if u.prices is not None:
            u.broker.get_account_status(u.prices)
        return bal
    if mkt in ("uni", "squni"):
        sp = m.pool_info.tick_spacing
        base, quote = m.base_token.name, m.quote_token.name
        price = m.market_status.data.price
        cur = int(m.market_status.data.closeTick)
        if name == "add":
            lo_off, width, fb, fq = args
            lo = (cur // sp + lo_off) * sp
            return m.add_liquidity_by_tick(lo, lo + width * sp, _wal(u, base) * _frac(fb), _wal(u, quote) * _frac(fq))
        if name == "add_price":
            lo_rel, hi_rel, fb, fq = args
            return m.add_liquidity(price * _frac(lo_rel), price * _frac(hi_rel), _wal(u, quote) * _frac(fq), _wal(u, base) * _frac(fb))
        if name == "add_value":
            lo_off, width, f = args
            lo = (cur // sp + lo_off) * sp
            total = _wal(u, quote) + _wal(u, base) * price
            return m.add_liquidity_by_value(lo, lo + width * sp, None if f is None else total * _frac(f))
        ks = _uni_positions(m)
        if name == "remove":
            idx, f, collect = args
            if not ks:
                return "skip"
            p = ks[idx % len(ks)]
            liq = None if f is None else int(D(m.positions[p].liquidity) * _frac(f))
            return m.remove_liquidity(p, liq, collect=collect)
        if name == "collect":
            idx, f0, f1 = args
            if not ks:
                return "skip"
            p = ks[idx % len(ks)]
            pos = m.positions[p]
            return m.collect_fee(p, None if f0 is None else pos.pending_amount0 * _frac(f0), None if f1 is None else pos.pending_amount1 * _frac(f1))
        if name == "buy":
            return m.buy(_wal(u, quote) / price * _frac(args[0]))
        if name == "sell":
            return m.sell(_wal(u, base) * _frac(args[0]))
        if name == "swap":
            from_base, f = args
            a, b = (base, quote) if from_base else (quote, base)
            return m.swap(_wal(u, a) * _frac(f), u.tok[a], u.tok[b])
        if name == "rebalance":
            return m.even_rebalance()
        if name == "remove_all":
            return m.remove_all_liquidity()
        raise ValueError(op)
    if mkt == "aave":
        names = [t["name"] for t in u.case["aave"]["tokens"]]

        def pick(sel):
            if isinstance(sel, str) and not sel.startswith("@"):
                return sel
            what, _, kk = sel[1:].partition(":")
            pool = {"debt": [x for x in names if u.tok[x] in m._borrows], "supplied": [x for x in names if u.tok[x] in m._supplies],
                    "funded": [x for x in names if _wal(u, x) > 0]}[what] or names
            return pool[int(kk or 0) % len(pool)]

        t = pick(args[0])
        tk = u.tok[t]
        li = m.market_status.data[t].liquidity_index
        bi = m.market_status.data[t].variable_borrow_index
        if name == "supply":
            return m.supply(tk, _wal(u, t) * _frac(args[1]), args[2])
        if name == "withdraw":
            if args[1] in QUANT:
                amt = _quant(m._supplies[tk].base_amount * li, args[1]) if tk in m._supplies else D(1)
            else:
                amt = None if args[1] is None else (m._supplies[tk].base_amount * li * _frac(args[1]) if tk in m._supplies else _frac(args[1]))
            return m.withdraw(tk, amt)
        if name == "borrow":
            amt = None if args[1] is None else m.get_max_borrow_amount(tk) * _frac(args[1])
            return m.borrow(tk, amt)
        if name == "repay":
            if args[1] in QUANT:
                amt = _quant(m._borrows[tk].base_amount * bi, args[1]) if tk in m._borrows else D(1)
            else:
                amt = None if args[1] is None else (m._borrows[tk].base_amount * bi * _frac(args[1]) if tk in m._borrows else _frac(args[1]))
            ct = u.tok[pick(args[3])] if args[3] else None
            return m.repay(tk, amt, args[2], ct)
        if name == "flag":
            return m.change_collateral(tk, args[1])
        raise ValueError(op)
    if mkt == "sq":
        pm = u.m["squni"]
        vks = sorted(m.vault.keys(), key=lambda v: v.id)
        if name == "open":
            eth, f, use_lp = args
            lp = None
            if use_lp:
                free = [p for p in _uni_positions(pm, True) if pm.positions[p].liquidity > 0]
                lp = free[0] if free else None
            osq = m.collateral_amount_to_osqth(D(eth), D("1.5")) * _frac(f)
            return m.open_deposit_mint(D(eth), osq, None, lp)
        if name in ("mint", "deposit", "burn_withdraw", "lp_deposit", "lp_withdraw") and not vks:
            return "skip"
        if name == "mint":
            vk = vks[args[0] % len(vks)]
            room = m._get_effective_collateral_in_eth(vk)
            osq = m.collateral_amount_to_osqth(room, D("1.5")) * _frac(args[1])
            return m.open_deposit_mint(D(0), osq, vk, None)
        if name == "deposit":
            return m.deposit(vks[args[0] % len(vks)], _wal(u, "WETH") * _frac(args[1]))
        if name == "burn_withdraw":
            vk = vks[args[0] % len(vks)]
            v = m.vault[vk]
            return m.burn_and_withdraw(vk, v.osqth_short_amount * _frac(args[1]), v.collateral_amount * _frac(args[2]))
        if name == "lp_deposit":
            # normally a free position; with the third argument set, any position - incl. one another vault already holds
            free = [p for p in _uni_positions(pm, not (len(args) > 2 and args[2]))]
            if not free:
                return "skip"
            return m.deposit_uni_position(vks[args[0] % len(vks)], free[args[1] % len(free)])
        if name == "lp_withdraw":
            held = [(vk, m.vault[vk].uni_nft_id) for vk in vks if m.vault[vk].uni_nft_id is not None]
            if not held:
                return "skip"
            vk, p = held[args[0] % len(held)]
            return m.withdraw_uni_position(vk, p)
        if name == "buy_sq":
            return m.buy_squeeth(None, _wal(u, "WETH") * _frac(args[0]))
        if name == "sell_sq":
            return m.sell_squeeth(_wal(u, "OSQTH") * _frac(args[0]))
        raise ValueError(op)
    if mkt == "opt":
        names = u.opt_names()
        if name == "deposit":
            return m.deposit(_wal(u, "ETH") * _frac(args[0]))
        if name == "withdraw":
            return m.withdraw(m.balance * _frac(args[0]))
        if name in ("buy", "sell"):
            held = sorted(m.positions.keys())
            nme = names[args[0] % len(names)] if name == "buy" or not held else held[args[0] % len(held)]
            mode = args[2] if len(args) > 2 else None
            kw = {}
            if mode and mode[0] == "cap":
                kw["max_mark_price_multiple"] = D(mode[1])
            elif mode and mode[0] in ("token", "usd") and nme in m.market_status.data.index:
                row = m.market_status.data.loc[nme]
                side = row.asks if name == "buy" else row.bids
                if side:
                    lvl = side[mode[1] % len(side)]
                    off = D(mode[2]) if len(mode) > 2 else D(1)
                    if mode[0] == "token":
                        kw["price_in_token"] = D(str(lvl[0])) * off
                    else:
                        kw["price_in_usd"] = D(str(lvl[0])) * D(str(row.underlying_price)) * off
            return getattr(m, name)(nme, D(args[1]), **kw)
        raise ValueError(op)
    if mkt == "glp":
        t = args[0].upper()
        if name == "buy_glp":
            return m.buy_glp(u.tok[t], _wal(u, t) * _frac(args[1]))
        if name == "sell_glp":
            return m.sell_glp(u.tok[t], m.glp_amount * _frac(args[1]))
        raise ValueError(op)
    if mkt == "gm":
        if name == "deposit":
            return m.deposit(_wal(u, "WETH") * _frac(args[0]), _wal(u, "USDC") * _frac(args[1]))
        if name == "withdraw":
            return m.withdraw(None if args[0] is None else m.amount * float(args[0]))
        raise ValueError(op)
    raise ValueError(op)


def summarize(x, depth=0):
    """comparable plain summary of a returned value"""
    from vf.engine import plain

    if isinstance(x, (list, tuple)) and depth < 3:
        return [summarize(v, depth + 1) for v in x]
    if hasattr(x, "__dict__") and not isinstance(x, (Decimal,)) and depth < 3:
        return {k: summarize(v, depth + 1) for k, v in sorted(vars(x).items()) if not k.startswith("_")}
    return plain(x)


def make_script(u: Universe):
    from demeter import Strategy
    from demeter.strategy import PeriodTrigger

    class Script(Strategy):
        def initialize(self):
            self.triggers.append(PeriodTrigger(pd.Timedelta(minutes=u.k), self._vf_trigger, trigger_immediately=True))
            u.bar = 0
            u.prices = u.actuator.token_prices.iloc[0]
            self._vf_ops("init", 0)

        def _vf_trigger(self, snap):
            self._vf_phase("trigger", snap)

        _vf_notified = -1

        def _vf_ops(self, phase, row_id):
            for op in u.case["prog"]:
                if op[0] == row_id and op[1] == phase:
                    try:
                        r = run_op(u, op)
                        out = ("skip", None) if isinstance(r, str) and r == "skip" else ("ok", r)
                    except Exception as e:  # noqa: a rejected user operation is an outcome
                        out = ("rejected", e)
                    u.outcomes.append((row_id, phase, op, out))
                    for o in u.obs:
                        o.op_done(u, phase, op, out)

        def _vf_phase(self, phase, snap):
            u.bar = snap.row_id
            u.prices = snap.prices
            for o in u.obs:
                o.phase_start(u, phase, snap)
            self._vf_ops(phase, snap.row_id)
            for o in u.obs:
                o.phase_end(u, phase, snap)

        def before_bar(self, snap):
            self._vf_phase("before", snap)

        def on_bar(self, snap):
            self._vf_phase("on", snap)

        def after_bar(self, snap):
            self._vf_phase("after", snap)

        def notify(self, action):
            for o in u.obs:
                o.on_notify(u, action)
            # operations scheduled for the notification hook run once, on the first notification of their bar
            if self._vf_notified != u.bar:
                self._vf_notified = u.bar
                self._vf_ops("notify", u.bar)

        def finalize(self):
            for o in u.obs:
                o.on_finalize(u)

    return Script()


# ---------------------------------------------------------------------------------------------- raw state
def raw_state(u: Universe):
    """plain, comparable snapshot of everything a user owns: wallet and every market's raw containers"""
    st = {"wallet": {t.name: a.balance for t, a in u.broker.assets.items()}}
    for key, m in u.m.items():
        if key in ("uni", "squni"):
            st[key] = {(p.lower_tick, p.upper_tick): (pos.liquidity, pos.pending_amount0, pos.pending_amount1, bool(pos.transferred)) for p, pos in m.positions.items()}
        elif key == "aave":
            st[key] = ({t.name: (s.base_amount, bool(s.collateral)) for t, s in m._supplies.items()}, {t.name: b.base_amount for t, b in m._borrows.items()})
        elif key == "sq":
            st[key] = ({v.id: (v.collateral_amount, v.osqth_short_amount, None if v.uni_nft_id is None else (v.uni_nft_id.lower_tick, v.uni_nft_id.upper_tick)) for v in m.vault.values()}, m._max_vault_id)
        elif key == "opt":
            st[key] = (m.balance, {k: (p.amount, p.buy_amount, p.sell_amount, p.avg_buy_price, p.avg_sell_price) for k, p in m.positions.items()})
        elif key == "glp":
            st[key] = (m.glp_amount, m.reward)
        elif key == "gm":
            st[key] = m.amount
    return st


def visible_books(u: Universe):
    if "opt" not in u.m:
        return None
    d = u.m["opt"].market_status.data
    if d is None or len(d.index) == 0:
        return {}
    return {n: (copy.deepcopy(list(r.asks)), copy.deepcopy(list(r.bids))) for n, r in d.iterrows()}


# ---------------------------------------------------------------------------------------------- reference valuation
def sqrt_q96(price: Decimal, d0: int, d1: int, t0q: bool) -> Fraction:
    """sqrt(token1/token0 atomic price) * 2^96 from a base-unit price, at 60 digits"""
    with localcontext() as c:
        c.prec = 60
        p = 1 / D(price) if t0q else D(price)
        atomic = p / (D(10) ** (d0 - d1))
        return fr(atomic.sqrt() * D(2**96))


def ratio(t: int) -> Fraction:
    return fr(tickmath.ratio_at(int(t)))


def uni_position_amounts(pool, price, lower, upper, liq):
    """(amount0, amount1) in token units held by `liq` in [lower, upper] at base-unit `price` (exact closed forms)"""
    s = sqrt_q96(price, pool.token0.decimal, pool.token1.decimal, pool.is_token0_quote)
    sa, sb = ratio(lower), ratio(upper)
    if s <= sa:
        a0, a1 = F(liq) * liqmath.Q96 * (sb - sa) / (sa * sb), F(0)
    elif s < sb:
        a0, a1 = F(liq) * liqmath.Q96 * (sb - s) / (s * sb), F(liq) * (s - sa) / liqmath.Q96
    else:
        a0, a1 = F(0), F(liq) * (sb - sa) / liqmath.Q96
    return a0 / 10**pool.token0.decimal, a1 / 10**pool.token1.decimal


def ref_uni_value(m, raw, price):
    """value of the non-transferred positions in the pool's quote token"""
    pool = m.pool_info
    tot = F(0)
    for (lo, hi), (liq, p0, p1, transferred) in raw.items():
        if transferred:
            continue
        a0, a1 = uni_position_amounts(pool, price, lo, hi, liq)
        a0, a1 = a0 + fr(p0), a1 + fr(p1)
        base, quote = (a1, a0) if pool.is_token0_quote else (a0, a1)
        tot += base * fr(price) + quote
    return tot


def twap_rows(u: Universe, bar, col):
    """values of the squeeth column over the bars whose timestamp lies in [now - 6 min, now]"""
    now = u.bars[bar]
    out = []
    for b in range(bar + 1):
        if (now - u.bars[b]).total_seconds() <= 6 * 60:
            out.append(getattr(u, col)[u.first_row(b)])
    return out


def geo(xs):
    return math.exp(sum(math.log(float(x)) for x in xs) / len(xs))


def ref_value(u: Universe, bar, raw):
    """Independent valuation of `raw` (raw_state) under the data of bar `bar`, in the account's quote token.
    Returns (net, asset_value, {market: value in account quote}, tolerance)."""
    c = u.case
    j = u.first_row(bar)
    tol = F(0)
    per = {}
    asset = sum((fr(b) * fr(u.bar_price(bar, t)) for t, b in raw["wallet"].items()), F(0))
    for key, m in u.m.items():
        qt = m.quote_token.name
        conv = F(1) if qt == c["quote"] else fr(u.bar_price(bar, qt))
        if key in ("uni", "squni"):
            price = u.frames[key]["price"].iloc[j]
            v = ref_uni_value(m, raw[key], price)
            tol += abs(v) * conv / 10**20
        elif key == "aave":
            sup, bor = raw[key]
            a = c["aave"]
            S = sum((fr(b) * fr(a["li"][t][j]) * fr(u.bar_price(bar, t)) for t, (b, _) in sup.items()), F(0))
            B = sum((fr(b) * fr(a["bi"][t][j]) * fr(u.bar_price(bar, t)) for t, b in bor.items()), F(0))
            v = S - B
            tol += F(2, 10**4) * conv + (S + B) * conv / 10**20
        elif key == "sq":
            vaults, _ = raw[key]
            nf = fr(u.nf[j])
            eth_row, osq_row = fr(u.eth[j]), fr(u.osq[j])
            tw_eth = fr(geo(twap_rows(u, bar, "eth")))
            pm = u.m["squni"]
            coll = F(0)
            short = F(0)
            lp_part = F(0)
            seen = set()
            for vid, (ca, sa_, nft) in vaults.items():
                coll += fr(ca)
                short += fr(sa_)
                if nft is not None and nft in seen:
                    continue  # every holding is counted exactly once, whatever number of vaults claims it
                if nft is not None:
                    seen.add(nft)
                    liq, p0, p1, _tr = raw["squni"][nft]
                    price = u.frames["squni"]["price"].iloc[j]
                    a0, a1 = uni_position_amounts(pm.pool_info, price, nft[0], nft[1], liq)
                    lp = (a0 + fr(p0)) + (a1 + fr(p1)) * nf * tw_eth / 10**4
                    coll += lp
                    lp_part += lp
            v = coll * eth_row - short * osq_row * eth_row
            tol += (lp_part * eth_row * conv) / 10**8 + (abs(coll) + abs(short)) * eth_row * conv / 10**20
        elif key == "opt":
            cash, pos = raw[key]
            h = (u.start + j) // 60
            listed = {}
            hs = u.opt_hours()
            if h in hs:
                hi = hs.index(h)
                for i, ins in enumerate(c["opt"]["instruments"]):
                    if u.opt_listed(i, h):
                        listed[u.opt_names()[i]] = D(ins["marks"][hi % len(ins["marks"])]) * u.opt_tick()
                listed["ETH-FILLER-1-C"] = D("0.5")
            v = fr(cash)
            for nme, (amt, *_r) in pos.items():
                if nme in listed:  # a position whose instrument is not in the snapshot has no mark: valued at nothing
                    v += fr(amt) * fr(dq(listed[nme], "0.000001"))
            tol += abs(v) * conv / 10**25  # the conversion into the account quote is a 35-digit Decimal product
        elif key == "glp":
            glp_amt, reward = raw[key]
            g = c["glp"]
            v = fr(glp_amt) * fr(g["gp"][j]) + fr(reward) * fr(c["avax"][j])
            tol += abs(v) * conv / 10**18
        elif key == "gm":
            amt = raw[key]
            g = c["gm"]
            pl, ps = float(u.eth[j]), float(D(c["usdc"]))
            pv = (float(g["long"][j]) * pl + float(g["short"][j]) * ps) * float(g["pv_factor"][j])
            v = fr(amt) * fr(pv) / fr(float(g["supply"])) if amt > 0 else F(0)
            tol += abs(v) * conv / 10**12
        else:
            raise ValueError(key)
        per[key] = v * conv
    net = asset + sum(per.values(), F(0))
    tol += abs(asset) / 10**25
    return net, asset, per, tol


# ---------------------------------------------------------------------------------------------- backtest manager (C19)
class View:
    """what run_op / raw_state need, reconstructed from a strategy's own broker (the Actuator is created by the manager)"""

    def __init__(self, case, broker):
        from demeter import TokenInfo

        self.case = case
        self.broker = broker
        self.tok = {n: TokenInfo(n, d) for n, d in DECS.items()}
        self.m = {mi.name: mk for mi, mk in broker.markets.items()}
        self.prices = None
        self.bar = -1
        self.start, self.n, self.k = case["start"], case["n"], case["k"]

    opt_names = Universe.opt_names


def managed_script(case, prog, out_path, sid):
    """a picklable scripted strategy that writes its result from finalize()"""
    from vf._managed import ManagedScript

    return ManagedScript(case, prog, out_path, sid)


def manager_inputs(case):
    """(StrategyConfig, BacktestData, BacktestConfig) with fresh, unattached market objects"""
    from demeter import BacktestConfig, BacktestData, StrategyConfig
    from demeter._typing import USD

    pre = case.get("preconfig")
    u = Universe(case, actuator=False, attach=bool(pre))
    if pre:
        # the configured markets already hold positions when they are handed to the manager (opened through a throw-away
        # broker on the first data row); every strategy starts from its own copy of them
        from demeter import MarketStatus

        ts = u.idx[0]
        prices = u.price_frame.loc[ts].copy()
        prices["USD"] = D(1)
        for key, mk in u.m.items():
            if key != "opt":
                mk.set_market_status(MarketStatus(ts, None), prices)
        u.prices, u.bar = prices, 0
        for op in pre:
            if op[2] in ("opt", "broker"):
                continue
            try:
                run_op(u, op)
            except Exception:  # noqa: a rejected preparation step simply leaves no position
                pass
    markets = list(u.m.values())
    data = BacktestData({m.market_info: u.frames[key] for key, m in u.m.items()}, (u.price_frame, USD if case["quote"] == "USD" else u.tok[case["quote"]]))
    for m in markets:
        pass
    cfg = StrategyConfig({u.tok[t]: D(a) for t, a in case["wallet"].items() if not (case.get("sparse_wallet") and D(a) == 0)}, markets)
    return cfg, data, BacktestConfig(print_actions=False, print_result=False, interval=f"{case['k']}min")
