"""C03 — frozen-market operations never create value, negative holdings or over-redemption."""
from decimal import Decimal
from fractions import Fraction

from hypothesis import strategies as st

from vf import frozen, multi
from vf.engine import Ctx, derive_seed, replay_body, run_given
from vf.gen.multi import st_universe

PROPERTY = "C03"
RULE = (
    "a generated universe (any mix of the six market families behind one broker and wallet) frozen on one bar with external "
    "token prices equal to the pools' own prices and order books with bids <= mark <= asks; a generated sequence of up to 30 "
    "operations of every market with arguments 0, dust, fractions, exactly all, a hair above, 1.5x and 10x of the relevant "
    "holding; after every step - accepted or rejected - the account's net value (Broker.get_account_status) is compared with "
    "its value before the step: never up by more than dust; unchanged for uniswap add / remove / collect and aave supply / "
    "withdraw / borrow / repay / flag; down by exactly the reported fee for swaps / buys / sells; every wallet balance, "
    "liquidity, pending amount, scaled supply / debt, vault amount, option cash / amount, GLP, reward and GM amount >= 0. The "
    "broker's figure is cross-checked against the independent valuation of C01. Non-trivial = >= 3 accepted state-changing "
    "steps including an oversized or exact-boundary argument."
)
ASSUMPTIONS = [
    "dust = 1e-5 x the value of the wallet balances the step touched when one of them was emptied (Asset.sub snaps differences below 1e-5 relative to zero), otherwise 1e-25 of (touched value + net value); + 2e-4 when an Aave market is present (it reports at 1e-4); + 1e-15 when GLP is present (integer USDG / GLP units); + 1e-9 relative on float quantities (GMX v2, squeeth TWAP)",
    "two modelled protocol effects raise the net value literally and are recorded as known findings, each checked against its exact formula: moving an LP position into / out of a squeeth vault when the oSQTH index price differs from its pool price (the controller values it at the index), and a GMX v2 deposit that earns a positive price impact from the impact pool; half of the cases run the strict regime index = mark",
    "swaps with a caller-chosen execution price are excluded (Broker.swap_by_* runs at the frozen prices)",
]
MIN_NONTRIVIAL = {"quick": 1200, "thorough": 25000}
REQUIRED_LABELS = ["exact.uni", "exact.aave", "fee.swap", "noprofit.sq", "noprofit.opt", "noprofit.glp", "noprofit.gm", "rejected", "regime.strict", "regime.general", "lp_transfer", "arg.oversized", "arg.exact"]

D = Decimal
F = Fraction
EXACT_UNI = {"add", "add_price", "remove", "collect"}
EXACT_AAVE = {"supply", "withdraw", "borrow", "repay", "flag"}


def _negatives(snap):
    bad = []
    for t, b in snap["wallet"].items():
        if b < 0:
            bad.append(f"wallet {t} = {b}")
    for key, v in snap.items():
        if key in ("uni", "squni"):
            for k, (liq, p0, p1, _t) in v.items():
                if liq < 0 or p0 < 0 or p1 < 0:
                    bad.append(f"{key} position {k}: liquidity {liq}, pending ({p0}, {p1})")
        elif key == "aave":
            for t, (b, _c) in v[0].items():
                if b < 0:
                    bad.append(f"aave supply {t} = {b}")
            for t, b in v[1].items():
                if b < 0:
                    bad.append(f"aave debt {t} = {b}")
        elif key == "sq":
            for vid, (c, s_, _n) in v[0].items():
                if c < 0 or s_ < 0:
                    bad.append(f"vault {vid}: collateral {c}, short {s_}")
        elif key == "opt":
            if v[0] < 0:
                bad.append(f"option cash {v[0]}")
            for n, p in v[1].items():
                if p[0] <= 0:
                    bad.append(f"option position {n} amount {p[0]}")
        elif key == "glp":
            if v[0] < 0 or v[1] < 0:
                bad.append(f"glp {v[0]}, reward {v[1]}")
        elif key == "gm":
            if v < 0:
                bad.append(f"gm {v}")
    return bad


def _touched_value(u, pre, post):
    tot = D(0)
    emptied = False
    for t in set(pre["wallet"]) | set(post["wallet"]):
        a, b = pre["wallet"].get(t, D(0)), post["wallet"].get(t, D(0))
        if a != b:
            tot += max(a, b) * D(u.prices[t])
            if b == 0 and a > 0:
                emptied = True
    return tot, emptied


def _lp_osqth(u, nft):
    """oSQTH held by a pool position incl. pending (pool's own view; token1 = oSQTH)"""
    from demeter.uniswap import PositionInfo

    pm = u.m["squni"]
    p = PositionInfo(*nft)
    a0, a1 = pm.get_position_amount(p)
    return a1 + pm.positions[p].pending_amount1


def reval(u):
    """value booked by the controller's index valuation of lent LP positions, beyond their pool (mark) valuation"""
    if "sq" not in u.m:
        return D(0)
    sq = u.m["sq"]
    row = sq.market_status.data
    index_px = sq.get_norm_factor() * sq.get_twap_price(u.tok["WETH"]) / D(10000)
    tot = D(0)
    for v in sq.vault.values():
        if v.uni_nft_id is not None and v.uni_nft_id in u.m["squni"].positions:
            tot += _lp_osqth(u, (v.uni_nft_id.lower_tick, v.uni_nft_id.upper_tick)) * (index_px - row["OSQTH"]) * row["WETH"]
    return tot


def body(case, ctx: Ctx):
    u = ctx.guarded("build", case, frozen.build, case, (), True)
    if u is None:
        ctx.case(case, False, ["build.failed"])
        return
    labels = {"regime.strict" if case.get("index_eq_mark") or "sq" not in case["order"] else "regime.general"}
    has_aave = "aave" in u.m
    accepted_changes = 0
    boundary = False
    nv = ctx.guarded("nv", case, frozen.net_value, u)
    if nv is None:
        ctx.case(case, False, sorted(labels))
        return
    r0 = reval(u)
    for i, op in enumerate(case["prog"]):
        pre, post, out, acts = frozen.step(u, op)
        nv1 = ctx.guarded("nv", case, frozen.net_value, u)
        if nv1 is None:
            break
        mk, name = op[2], op[3]
        fam = "uni" if mk == "squni" else mk
        r1 = reval(u)
        adj = r1 - r0
        r0 = r1
        raw_dnv = nv1 - nv
        dnv = raw_dnv - adj  # change of net value not explained by the index-vs-mark revaluation of lent LP positions
        touched, emptied = _touched_value(u, pre, post)
        scale = touched + abs(nv) + 1  # net value is a 35-digit sum: its own rounding is ~1e-34 of it
        tol = (D("0.00001") * touched if emptied else D("1e-25") * scale) + (D("0.0002") if has_aave else 0)
        if "glp" in u.m:
            tol += D("1e-15")  # GLP / USDG amounts are integers of 1e-18: the contract's own round-downs
        if "gm" in u.m:
            tol += D("1e-9") * max(D(str(post["gm"])), D(str(pre["gm"])), D(1)) * D(str(u.frames["gm"]["poolValue"].iloc[0] / u.frames["gm"]["marketTokensSupply"].iloc[0]))
        if "sq" in u.m and any(v[2] is not None for v in list(pre["sq"][0].values()) + list(post["sq"][0].values())):
            tol += D("1e-9") * abs(nv)
        where = f"step {i} {op[2:]} -> {out[0]}{'' if out[0] != 'rejected' else ' (' + type(out[1]).__name__ + ')'}: net value {nv} -> {nv1} (change {raw_dnv}{'' if adj == 0 else ', ' + str(adj) + ' of it index-vs-mark revaluation of a lent LP position'}, dust {tol})"
        args = [a for a in op[4:] if isinstance(a, str)]
        if any(a in ("1.5", "10", "1.3", "1.2", "5", "2", "1000", "5000") for a in args):
            labels.add("arg.oversized")
            boundary = True
        if any(a in ("1", "1.000001", "0.999", "1.001", "1.02") for a in args):
            labels.add("arg.exact")
            boundary = True
        neg = _negatives(post)
        ctx.check(not neg, f"{fam}.{name}.negative", lambda: f"{where}: negative holding: {neg[:3]}", case)
        changed = frozen.diff({k: v for k, v in pre.items() if k != "_nact"}, {k: v for k, v in post.items() if k != "_nact"}) is not None
        if out[0] == "ok" and changed:
            accepted_changes += 1
        # ---- known modelled effects, verified against their exact formulas
        handled = False
        if adj != 0:
            labels.add("lp_transfer")
            if raw_dnv > tol and adj > tol:
                ctx.fail("sq.lp_transfer.revaluation", f"{where}: net value rises by {raw_dnv}; {adj} of it is oSQTH of an LP position lent to a vault x (index price - pool price) x ETH price", case)
        if out[0] == "ok" and mk == "gm" and name == "deposit" and dnv > tol:
            res = out[1]
            bonus = D(str(max(res.price_impact_usd, 0.0)))
            ctx.check(dnv <= bonus * (1 + D("1e-9")) + tol, "gm.deposit.profit_beyond_impact", lambda: f"{where}: gain exceeds the positive price impact {bonus}", case)
            ctx.fail("gm.deposit.positive_impact", f"{where}: a deposit that rebalances the pool gains {dnv} <= positive price impact {bonus} paid from the impact pool", case)
            handled = True
        # ---- the rule
        if not handled:
            ctx.check(dnv <= tol, f"{fam}.{name}.value_created", lambda: f"{where}: net value rises", case)
            if out[0] == "ok":
                if fam == "uni" and name in EXACT_UNI:
                    labels.add("exact.uni")
                    ctx.check(abs(dnv) <= tol, f"uni.{name}.not_conserved", lambda: f"{where}: liquidity operations must conserve value", case)
                elif fam == "aave" and name in EXACT_AAVE:
                    labels.add("exact.aave")
                    ctx.check(abs(dnv) <= tol, f"aave.{name}.not_conserved", lambda: f"{where}: lending operations must conserve value", case)
                elif (fam == "uni" and name in ("buy", "sell", "swap")) or (mk == "sq" and name in ("buy_sq", "sell_sq")):
                    r = out[1]
                    fee = D(r[0])
                    if name in ("buy", "buy_sq"):
                        fee_tok = u.m["squni" if mk == "sq" else mk].quote_token.name
                    elif name in ("sell", "sell_sq"):
                        fee_tok = u.m["squni" if mk == "sq" else mk].base_token.name
                    else:
                        m = u.m[mk]
                        fee_tok = (m.base_token if op[4] else m.quote_token).name
                    exp = -fee * D(u.prices[fee_tok])
                    labels.add("fee.swap")
                    ctx.check(abs(dnv - exp) <= tol + abs(exp) * D("1e-12"), f"uni.{name}.fee", lambda: f"{where}: a swap must lose exactly the reported fee {fee} {fee_tok} = {exp}", case)
                elif fam in ("sq", "opt", "glp", "gm"):
                    labels.add(f"noprofit.{fam}")
            else:
                labels.add("rejected") if out[0] == "rejected" else None
        nv = nv1
        if i % 6 == 5 or i == len(case["prog"]) - 1:
            raw = multi.raw_state(u)
            net, asset, per, rtol = multi.ref_value(u, 0, raw)
            ctx.check(abs(multi.fr(nv1) - net) <= rtol + (F(2, 10**4) if has_aave else 0), "valuation", lambda: f"step {i}: broker net value {nv1} vs independent valuation {float(net)} ({ {k: float(v) for k, v in per.items()} })", case)
    ctx.case(case, accepted_changes >= 3 and boundary, sorted(labels), key=[case["order"], case["prog"], case["wallet"]])


def st_case():
    return st_universe("frozen", max_bars=2, max_ops=30)


def shards(tier, seed):
    n = 300 if tier == "quick" else 6000
    return [{"sub": "frozen", "idx": i, "n": n, "seed": derive_seed(seed, PROPERTY, "frozen", i)} for i in range(16)]


def run_shard(spec):
    ctx = Ctx(PROPERTY, spec["sub"])
    v = run_given(ctx, st_case(), body, spec["n"], spec["seed"])
    return ctx.result(v)


def replay(rec):
    return replay_body(PROPERTY, body, rec["case"], rec["sub"])
