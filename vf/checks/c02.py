"""C02 — no look-ahead: bars 0..k depend only on data of bars 0..k; inputs stay intact; reruns reproduce."""
import copy
from decimal import Decimal

import pandas as pd
from hypothesis import strategies as st

from vf import multi, world
from vf.engine import Ctx, case_hash, derive_seed, plain, replay_body, run_given
from vf.gen.multi import st_universe

PROPERTY = "C02"
RULE = (
    "a generated universe H (all market types, 1-8 bars at 1/2/5/15/60 minutes, generated program) and a cut bar k; H' "
    "equals H on every raw minute row belonging to bars 0..k (market frames, option snapshots of hours up to bar k's hour, "
    "price frame) and differs in every column of every later row. The same program runs on both with fresh accounts "
    "through the real Actuator; account rows 0..k, records stamped <= bar k, per-operation outcomes and deep copies of "
    "every snapshot handed to before-bar / trigger / on-bar / after-bar for bars <= k must be identical. The supplied "
    "frames are fingerprinted (values incl. nested order-book lists, dtypes, index) before and after the run; a third run "
    "on the very same frame objects with a fresh account must reproduce the first. Non-trivial = k < last bar, the tails "
    "really differ on consumed columns, and an accepted operation at a bar <= k."
)
ASSUMPTIONS = [
    "'agree on bars 0..k' means: every minute row of the bins 0..k, and every hourly option snapshot whose hour is <= the hour of bar k (closed bars show the snapshot of their hour)",
    "market.data may be replaced by a resampled frame during a run with interval > 1 min; the supplied frame objects are what must stay unchanged",
]
MIN_NONTRIVIAL = {"quick": 250, "thorough": 5000}
REQUIRED_LABELS = ["mkt.uni", "mkt.aave", "mkt.sq", "mkt.opt", "mkt.glp", "mkt.gm", "interval.gt1", "cut.first_bar", "cut.middle", "twap.straddles_cut", "write_before_cut", "rerun", "truncated", "wallet.grows_before_cut", "manager_path"]

D = Decimal


@st.composite
def st_case(draw):
    case = draw(st_universe("loop", max_bars=12))
    nb = (case["start"] + case["n"] - 1) // case["k"] - case["start"] // case["k"] + 1
    # cuts anywhere, with extra weight on late ones (a look-ahead through a trailing window needs a full window before the cut)
    cut = draw(st.one_of(st.integers(0, max(0, nb - 2)), st.integers(max(0, nb - 4), max(0, nb - 2)))) if nb > 1 else 0
    return {"u": case, "cut": cut, "variant": draw(st.integers(0, 2))}


def tail_case(case, cut_row, cut_hour, variant):
    """H': identical up to minute row cut_row - 1 / hour cut_hour, different in every column afterwards"""
    c = copy.deepcopy(case)
    n = c["n"]
    f = [D("1.37"), D("0.71"), D("1.05")][variant]

    def scale(lst, factor, q):
        for j in range(cut_row, n):
            lst[j] = format((D(lst[j]) * factor).quantize(D(q)), "f")

    scale(c["eth"], f, "0.01")
    scale(c["osq"], 2 - f / 2, "0.00000001")
    scale(c["avax"], f, "0.0001")
    for key, d0, d1 in (("uni", 6, 18), ("sq", 18, 18)):
        if key in c:
            r = c[key]
            for j in range(cut_row, n):
                r["noise"][j] += 250 + 13 * variant
                r["liqs"][j] = str(int(r["liqs"][j]) * 3 + 1)
                r["in0"][j] = str(int(r["in0"][j]) + 10 ** (d0 + 1))
                r["in1"][j] = str(int(r["in1"][j]) + 10 ** (d1 - 1))
    if "sq" in c:
        scale(c["sq"]["nf"], D("0.97"), "0.0000000001")
    if "aave" in c:
        for t in c["aave"]["li"]:
            scale(c["aave"]["li"][t], D("1.05"), "1e-27")
            scale(c["aave"]["bi"][t], D("1.09"), "1e-27")
    if "glp" in c:
        for j in range(cut_row, n):
            c["glp"]["glp"][j] = str(D(c["glp"]["glp"][j]) + 10**20)
        scale(c["glp"]["gp"], D("1.11"), "1e-12")
    if "gm" in c:
        g = c["gm"]
        for j in range(cut_row, n):
            g["long"][j] = str(int(g["long"][j]) + 77)
            g["short"][j] = str(int(g["short"][j]) + 12345)
            g["pv_factor"][j] = str(float(g["pv_factor"][j]) + 0.031)
    if "opt" in c:
        h0 = c["start"] // 60
        for ins in c["opt"]["instruments"]:
            # marks are indexed by hour number relative to the first hour (cyclically): re-key them so later hours differ
            hs = (c["start"] + n - 1) // 60 - h0 + 1
            marks = [ins["marks"][i % len(ins["marks"])] for i in range(hs)]
            for i in range(hs):
                if h0 + i > cut_hour:
                    marks[i] += 17
            ins["marks"] = marks
    return c


def truncate_case(case, cut_row):
    """H'': the history simply ends after bar k (a data set that ends there agrees with H on bars 0..k)"""
    c = copy.deepcopy(case)

    for key in ("eth", "osq", "avax"):
        c[key] = c[key][:cut_row]
    for key, fields in (("uni", ("noise", "liqs", "in0", "in1")), ("sq", ("noise", "liqs", "in0", "in1", "nf")), ("glp", ("glp", "gp")), ("gm", ("long", "short", "pv_factor"))):
        if key in c:
            for f in fields:
                c[key][f] = c[key][f][:cut_row]
    if "aave" in c:
        for f in ("li", "bi"):
            for t in c["aave"][f]:
                c["aave"][f][t] = c["aave"][f][t][:cut_row]
    c["n"] = cut_row
    return c


def fingerprint(df):
    """comparable plain structure of a frame: index, columns, dtypes and every value (nested lists deep-copied)"""
    return case_hash([[str(x) for x in df.index], [str(x) for x in df.columns], [str(t) for t in df.dtypes], [[plain(v) if not isinstance(v, list) else copy.deepcopy(v) for v in row] for row in df.itertuples(index=False, name=None)]])


def snap_plain(snap, keys):
    out = {"ts": str(snap.timestamp), "row": snap.row_id, "prices": {k: plain(v) for k, v in snap.prices.items()}}
    for k, v in snap.market_status.items():
        if isinstance(v, pd.DataFrame):
            out[k.name] = [[str(i)] + [plain(x) for x in row] for i, row in zip(v.index, v.itertuples(index=False, name=None))]
        elif isinstance(v, pd.Series):
            out[k.name] = [[str(i), plain(x)] for i, x in v.items()]
        else:
            out[k.name] = plain(v)
    return out


class Rec(multi.Obs):
    def __init__(self):
        self.snaps = []
        self.outs = []

    def on_built(self, u):
        self.fp_before = fingerprints(u)

    def phase_start(self, u, phase, snap):
        self.snaps.append((snap.row_id, phase, snap_plain(snap, u.m)))

    def op_done(self, u, phase, op, out):
        self.outs.append((u.bar, phase, plain(op), out[0], multi.summarize(out[1]) if out[0] == "ok" else type(out[1]).__name__))


def history(u):
    rows = []
    for s in u.actuator.account_status:
        rows.append({"ts": str(s.timestamp), "net": plain(s.net_value), "asset": plain(s.asset_value), "bal": {k.name: plain(v) for k, v in s.asset_balances.items()},
                     "mk": {k.name: multi.summarize(v) for k, v in s.market_status.items()}})
    return rows


def history_df(u, upto=None):
    """rows of Actuator.account_status_df as {column: value}; a blank cell and an absent column are the same thing
    (a token that enters the wallet later adds a column whose earlier cells are blank)"""
    df = u.actuator.account_status_df
    cols = ["/".join(str(getattr(x, "name", x)) for x in (c if isinstance(c, tuple) else (c,))) for c in df.columns]
    rows = []
    for ts, row in zip(df.index, df.itertuples(index=False, name=None)):
        if upto is not None and pd.Timestamp(ts) > upto:
            break
        rows.append({"ts": str(ts), **{c: plain(v) for c, v in zip(cols, row) if not (isinstance(v, float) and v != v) and v is not None}})
    return rows


def actions_plain(u, upto=None):
    out = []
    for a in u.actuator.actions:
        if upto is None or pd.Timestamp(a.timestamp) <= upto:
            out.append([type(a).__name__, multi.summarize(a)])
    return out


def fingerprints(u):
    fp = {key: fingerprint(df) for key, df in u.frames.items()}
    fp["_prices"] = fingerprint(u.price_frame)
    return fp


def run(case, frames=None, price_frame=None):
    rec = Rec()
    u = multi.Universe(case, [rec], frames=frames, price_frame=price_frame)
    world.quiet_run(u.actuator)
    rec.fp_after = fingerprints(u)
    return u, rec


def first_diff(a, b):
    if a == b:
        return None
    if isinstance(a, dict) and isinstance(b, dict):
        for k in sorted(set(a) | set(b), key=str):
            if a.get(k) != b.get(k):
                d = first_diff(a.get(k), b.get(k))
                return f"[{k}]{d if d and d.startswith('[') else ': ' + str(d)}"
    if isinstance(a, list) and isinstance(b, list):
        if len(a) != len(b):
            return f"length {len(a)} vs {len(b)}"
        for i, (x, y) in enumerate(zip(a, b)):
            if x != y:
                d = first_diff(x, y)
                return f"[{i}]{d if d and d.startswith('[') else ': ' + str(d)}"
    return f"{str(a)[:120]} vs {str(b)[:120]}"


def body(case, ctx: Ctx):
    uc = case["u"]
    bins = multi.bins_of(uc)
    nb = len(bins)
    k = min(case["cut"], nb - 1)
    cut_row = bins[k][-1] + 1
    cut_hour = (uc["start"] + cut_row - 1) // 60
    labels = {f"mkt.{x}" for x in uc["order"]}
    if uc["k"] > 1:
        labels.add("interval.gt1")
    res = ctx.guarded("run.H", case, run, uc)
    if res is None:
        ctx.case(case, False, sorted(labels))
        return
    u1, r1 = res
    # ---- intactness: fingerprints of the supplied frame objects before and after the run
    for key in r1.fp_before:
        ctx.check(r1.fp_before[key] == r1.fp_after[key], f"intact.{key}", lambda: f"the run changed the supplied {key} frame", case)
    # ---- rerun on the very same frame objects with a fresh account
    res3 = ctx.guarded("run.again", case, run, uc, u1.frames, u1.price_frame)
    if res3 is not None:
        labels.add("rerun")
        u3, r3 = res3
        h1, h3 = history(u1), history(u3)
        ctx.check(h1 == h3, "rerun.history", lambda: f"second run on the same inputs differs: {first_diff(h1, h3)}", case)
        d1, d3 = history_df(u1), history_df(u3)
        ctx.check(d1 == d3, "rerun.history_df", lambda: f"second run on the same inputs gives another account_status_df: {first_diff(d1, d3)}", case)
        a1, a3 = actions_plain(u1), actions_plain(u3)
        ctx.check(a1 == a3, "rerun.actions", lambda: f"second run on the same inputs recorded different actions: {first_diff(a1, a3)}", case)
    # ---- the other entry point: the same inputs handed to a BacktestManager (one strategy, in-process) stay intact too
    if case["variant"] == 0:
        def via_manager():
            import contextlib, io, os

            from demeter import BacktestManager

            cfg, data, bk = multi.manager_inputs(uc)
            before = {mi.name: (id(df), fingerprint(df)) for mi, df in data.data.items()}
            pf = data.prices[0] if isinstance(data.prices, tuple) else data.prices
            before["_prices"] = (id(pf), fingerprint(pf))
            out = os.path.join(os.environ.get("VF_WORK", "."), f"c02-mgr-{os.getpid()}.json")
            with contextlib.redirect_stdout(io.StringIO()), contextlib.redirect_stderr(io.StringIO()):
                BacktestManager(cfg, data, [multi.managed_script(uc, uc["prog"], out, 0)], bk, threads=1).run()
            if os.path.exists(out):
                os.remove(out)
            after = {mi.name: (id(df), fingerprint(df)) for mi, df in data.data.items()}
            pf2 = data.prices[0] if isinstance(data.prices, tuple) else data.prices
            after["_prices"] = (id(pf2), fingerprint(pf2))
            return before, after

        r_ = ctx.guarded("run.manager", case, via_manager)
        if r_ is not None:
            labels.add("manager_path")
            for key in r_[0]:
                ctx.check(r_[0][key] == r_[1].get(key), f"intact.manager.{key}", lambda: f"a BacktestManager run ({uc['k']}-minute bars) changed the supplied {key} data of its BacktestData", case)
    # ---- no look-ahead
    nontrivial = False
    if k < nb - 1:
        c2 = tail_case(uc, cut_row, cut_hour, case["variant"])
        res2 = ctx.guarded("run.H'", case, run, c2)
        if res2 is not None:
            u2, r2 = res2
            labels.add("cut.first_bar" if k == 0 else "cut.middle")
            bar_ts = pd.Timestamp(u1.bars[k])
            h1, h2 = history(u1)[: k + 1], history(u2)[: k + 1]
            ctx.check(h1 == h2, "lookahead.history", lambda: f"account history of bars 0..{k} depends on later data: {first_diff(h1, h2)}", case)
            d1, d2 = history_df(u1, bar_ts), history_df(u2, bar_ts)
            ctx.check(d1 == d2, "lookahead.history_df", lambda: f"account_status_df rows of bars 0..{k} depend on later data: {first_diff(d1, d2)}", case)
            if any(set(r) != set(d1[0]) for r in d1):
                labels.add("wallet.grows_before_cut")
            a1, a2 = actions_plain(u1, bar_ts), actions_plain(u2, bar_ts)
            ctx.check(a1 == a2, "lookahead.actions", lambda: f"records of bars 0..{k} depend on later data: {first_diff(a1, a2)}", case)
            o1, o2 = [o for o in r1.outs if o[0] <= k], [o for o in r2.outs if o[0] <= k]
            ctx.check(o1 == o2, "lookahead.outcomes", lambda: f"operation outcomes of bars 0..{k} depend on later data: {first_diff(o1, o2)}", case)
            s1, s2 = [s for s in r1.snaps if s[0] <= k], [s for s in r2.snaps if s[0] <= k]
            ctx.check(s1 == s2, "lookahead.snapshots", lambda: f"snapshots handed to the strategy for bars 0..{k} depend on later data: {first_diff(s1, s2)}", case)
            # ---- the history simply ends after bar k: what was reported for bars 0..k must not change
            hours_in = (uc["start"] + cut_row - 1) // 60 - uc["start"] // 60 + 2
            if "opt" not in uc["order"] or cut_row >= hours_in:  # (the minute grid must still drive the loop)
                c3 = truncate_case(uc, cut_row)
                res4 = ctx.guarded("run.H''", case, run, c3)
                if res4 is not None:
                    u4, r4 = res4
                    labels.add("truncated")
                    h4 = history(u4)
                    ctx.check(h1 == h4, "truncated.history", lambda: f"account history of bars 0..{k} differs when the data ends after bar {k}: {first_diff(h1, h4)}", case)
                    d4 = history_df(u4)
                    ctx.check(d1 == d4, "truncated.history_df", lambda: f"account_status_df rows of bars 0..{k} differ when the data ends after bar {k}: {first_diff(d1, d4)}", case)
                    a4 = actions_plain(u4)
                    ctx.check(a1 == a4, "truncated.actions", lambda: f"records of bars 0..{k} differ when the data ends after bar {k}: {first_diff(a1, a4)}", case)
                    ctx.check(o1 == r4.outs, "truncated.outcomes", lambda: f"operation outcomes of bars 0..{k} differ when the data ends after bar {k}: {first_diff(o1, r4.outs)}", case)
                    ctx.check(s1 == r4.snaps, "truncated.snapshots", lambda: f"snapshots of bars 0..{k} differ when the data ends after bar {k}: {first_diff(s1, r4.snaps)}", case)
            accepted = any(o[3] == "ok" for o in o1)
            if accepted:
                labels.add("write_before_cut")
            if "sq" in uc["order"] and k + 1 < nb and (u1.bars[k + 1] - u1.bars[k]).total_seconds() <= 360:
                labels.add("twap.straddles_cut")
            differs = history(u1)[k + 1 :] != history(u2)[k + 1 :] or [s for s in r1.snaps if s[0] > k] != [s for s in r2.snaps if s[0] > k]
            nontrivial = accepted and differs
    ctx.case(case, nontrivial, sorted(labels), key=[uc["order"], uc["k"], uc["prog"], uc["eth"], case["cut"]])


def shards(tier, seed):
    n = 50 if tier == "quick" else 1000
    return [{"sub": "prefix", "idx": i, "n": n, "seed": derive_seed(seed, PROPERTY, "prefix", i)} for i in range(16)]


def run_shard(spec):
    ctx = Ctx(PROPERTY, spec["sub"])
    v = run_given(ctx, st_case(), body, spec["n"], spec["seed"])
    return ctx.result(v)


def replay(rec):
    return replay_body(PROPERTY, body, rec["case"], rec["sub"])
