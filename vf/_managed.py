"""Module-level (picklable) scripted strategy for BacktestManager runs: executes a program, writes its result from finalize()."""
import json

import pandas as pd

from demeter import Strategy
from demeter.strategy import PeriodTrigger, TimeRange, TimeRangeTrigger


class ManagedScript(Strategy):
    def __init__(self, case, prog, out_path, sid):
        super().__init__()
        self._vf_case = case
        self._vf_prog = prog
        self._vf_out = out_path
        self._vf_sid = sid
        self._vf_outs = []

    def initialize(self):
        from vf import multi

        self._vf_view = multi.View(self._vf_case, self.broker)
        self.triggers.append(PeriodTrigger(pd.Timedelta(minutes=self._vf_case["k"]), self._vf_trigger, trigger_immediately=True))
        # a second, stateless trigger covering the whole run: it only counts its calls (it must be called by this strategy's run alone)
        from vf import world

        bars = world.bar_grid(self._vf_case["start"], self._vf_case["n"], self._vf_case["k"])
        self.triggers.append(TimeRangeTrigger(TimeRange(bars[0], bars[-1] + pd.Timedelta(minutes=self._vf_case["k"])), self._vf_count))

        class _S:  # operations issued from initialize()
            row_id = 0
            prices = self.prices.iloc[0]

        self._vf_phase("init", _S)

    def _vf_trigger(self, snap):
        self._vf_phase("trigger", snap)

    def _vf_count(self, snap):
        self._vf_calls = getattr(self, "_vf_calls", 0) + 1

    def _vf_phase(self, phase, snap):
        from vf import multi

        v = self._vf_view
        v.bar = snap.row_id
        v.prices = snap.prices
        self._vf_calls = getattr(self, "_vf_calls", 0) + 1
        for op in self._vf_prog:
            if op[0] == snap.row_id and op[1] == phase:
                try:
                    r = multi.run_op(v, op)
                    out = "skip" if isinstance(r, str) and r == "skip" else "ok"
                except Exception as e:  # noqa: a rejected user operation is an outcome
                    out = type(e).__name__
                self._vf_outs.append([snap.row_id, phase, out])

    def notify(self, action):
        v = self._vf_view
        if getattr(self, "_vf_notified", -1) != v.bar:
            self._vf_notified = v.bar

            class _S:  # the phase executor only needs row id and prices
                row_id = v.bar
                prices = v.prices

            self._vf_phase("notify", _S)

    def before_bar(self, snap):
        self._vf_phase("before", snap)

    def on_bar(self, snap):
        self._vf_phase("on", snap)

    def after_bar(self, snap):
        self._vf_phase("after", snap)

    def finalize(self):
        from vf import multi
        from vf.engine import plain

        rows = []
        for s in self.account_status:
            rows.append({"ts": str(s.timestamp), "net": plain(s.net_value), "asset": plain(s.asset_value), "bal": {k.name: plain(v) for k, v in s.asset_balances.items()},
                         "mk": {k.name: multi.summarize(v) for k, v in s.market_status.items()}})
        df = self.account_status_df
        res = {"sid": self._vf_sid, "history": rows, "df_shape": list(df.shape), "df_net": [plain(x) for x in df["net_value"]] if "net_value" in df.columns else [plain(x) for x in df.iloc[:, 0]],
               "final": plain(_strkeys(multi.raw_state(self._vf_view))), "calls": self._vf_calls, "outs": self._vf_outs, "actions": [type(a).__name__ for a in self.actions]}
        with open(self._vf_out, "w") as f:
            json.dump(_norm(res), f)


def _strkeys(x):
    if isinstance(x, dict):
        return {str(k): _strkeys(v) for k, v in x.items()}
    if isinstance(x, (list, tuple)):
        return [_strkeys(v) for v in x]
    return x


def _norm(x):
    """numeric strings in canonical form (Decimal('0E-31') and Decimal('0E-35') are the same number)"""
    from decimal import Decimal, InvalidOperation

    if isinstance(x, dict):
        return {k: _norm(v) for k, v in x.items()}
    if isinstance(x, list):
        return [_norm(v) for v in x]
    if isinstance(x, str) and x and (x[0].isdigit() or x[0] in "-+."):
        try:
            d = Decimal(x)
            return format(d.normalize(), "f") if d.is_finite() else x
        except InvalidOperation:
            return x
    return x
