"""Hypothesis strategies for Deribit order books and order sequences."""
from decimal import Decimal

from hypothesis import strategies as st

D = Decimal


@st.composite
def st_instrument(draw, cfg, idx, sizes_kind, expiry_h=240, underlying=None):
    kind = draw(st.sampled_from(["CALL", "PUT"]))
    under = underlying if underlying is not None else (draw(st.integers(150000, 350000)) / 100 if cfg == "ETH" else draw(st.integers(3000000, 7000000)) / 100)
    strike = int(round(under / 50)) * 50 + draw(st.integers(-6, 6)) * 50 + idx  # distinct strikes -> distinct names
    tick = D("0.0005") if cfg == "ETH" else D("0.0001")
    dyadic = draw(st.integers(0, 4)) == 0
    if dyadic:
        # binary-exact prices: a level can sit exactly on mark x multiple (1.5, 2, 3), the boundary of a capped order
        tick = D(1) / D(2048)
    # 'deep': expensive (deep in the money) options - neighbouring price levels lie within 0.1% of each other, so the
    # +-0.1% window of a limit price can hold more than one level (only the first one is traded)
    deep = not dyadic and draw(st.integers(0, 5)) == 0
    mark_ticks = draw(st.integers(2, 12)) if dyadic else (draw(st.integers(1100, 2400)) if deep else draw(st.integers(4, 380)))
    half = draw(st.sampled_from([0, 0, 1]))  # mark on the grid or between two grid points
    mark = D(mark_ticks) * tick + (tick / 2 if half else 0)
    na, nb = draw(st.integers(0, 8)), draw(st.integers(0, 8))

    def size():
        if cfg == "ETH":
            v = draw(st.one_of(st.integers(1, 12), st.integers(1, 900)))
            return float(v) if sizes_kind == "float" else v
        v = draw(st.one_of(st.integers(1, 30), st.integers(1, 5000)))
        return float(D(v) / 10)

    asks, bids = [], []
    p = mark_ticks + (1 if half else draw(st.integers(0, 2)))
    for _ in range(na):
        asks.append([float(D(p) * tick), size()])
        p += 1 if deep and draw(st.booleans()) else draw(st.integers(1, 6))
    p = mark_ticks - draw(st.integers(0, 2))
    for _ in range(nb):
        if p <= 0:
            break
        bids.append([float(D(p) * tick), size()])
        p -= 1 if deep and draw(st.booleans()) else draw(st.integers(1, 6))
    from vf.deribit import inst_name

    return {"name": inst_name(cfg, expiry_h, strike, kind), "type": kind, "strike": strike, "expiry_h": expiry_h, "mark": float(mark), "underlying": under,
            "asks": asks, "bids": bids, "state": draw(st.sampled_from(["open"] * 9 + ["closed"])), "delta": 0.5, "gamma": 0.002}


@st.composite
def st_mode(draw, ins, is_buy):
    side = ins["asks"] if is_buy else ins["bids"]
    k = draw(st.sampled_from(["market", "market", "market", "token", "token", "usd", "cap", "cap+token"]))
    if k == "market" or not side and k in ("token", "usd", "cap+token"):
        return ["market"]
    if k == "cap":
        return ["cap", draw(st.sampled_from(["1.0001", "1.02", "1.1", "1.5", "2", "3"]))]
    lvl = side[draw(st.integers(0, len(side) - 1))]
    jit = D(draw(st.sampled_from(["0", "0", "0.0005", "-0.0005", "0.002", "-0.002"])))
    price = D(str(lvl[0])) * (1 + jit)
    if k == "token":
        return ["token", format(price, "f")]
    if k == "usd":
        return ["usd", format(price * D(str(ins["underlying"])), "f")]
    return ["token", format(price, "f"), None, draw(st.sampled_from(["1.02", "1.2", "2", "3"]))]


@st.composite
def st_order(draw, cfg, instruments, held_hint):
    i = draw(st.integers(0, len(instruments) - 1))
    ins = instruments[i]
    is_buy = draw(st.sampled_from([True, True, False]))
    side = ins["asks"] if is_buy else ins["bids"]
    depth = sum(D(str(s)) for _, s in side)
    first = D(str(side[0][1])) if side else D(1)
    step = D(1) if cfg == "ETH" else D("0.1")
    choices = [step, step * 2, first, first + step, depth, depth + step, depth * 2 + step, step / 2, step * D("0.4"), step * D("1.5"), step * D("2.4"), first / 2]
    if len(side) > 1:
        choices += [first + D(str(side[1][1])), first + D(str(side[1][1])) / 2]
    amt = draw(st.sampled_from(choices))
    sel = i if is_buy or draw(st.integers(0, 2)) == 0 else "@held"  # sells mostly target something that is held
    return ["buy" if is_buy else "sell", sel, format(amt, "f"), draw(st_mode(ins, is_buy))]


@st.composite
def st_book_case(draw):
    cfg = draw(st.sampled_from(["ETH", "ETH", "BTC"]))
    sizes_kind = draw(st.sampled_from(["int", "float"]))
    n = draw(st.integers(1, 3))
    under = draw(st.integers(150000, 350000)) / 100 if cfg == "ETH" else draw(st.integers(3000000, 7000000)) / 100
    instruments = [draw(st_instrument(cfg, i, sizes_kind, underlying=under)) for i in range(n)]
    bars = []
    for b in range(draw(st.integers(1, 2))):
        ops = []
        for _ in range(draw(st.integers(1, 7))):
            if draw(st.integers(0, 9)) == 0:
                ops.append([draw(st.sampled_from(["deposit", "withdraw"])), draw(st.sampled_from(["0.5", "1", "1000"]))])
            else:
                ops.append(draw(st_order(cfg, instruments, None)))
        bars.append(ops)
    return {"cfg": cfg, "cash": draw(st.sampled_from(["0", "0.01", "1", "50", "100000"])), "wallet": draw(st.sampled_from(["0", "2"])), "instruments": instruments, "bars": bars}
