"""Exact (Fraction) reference for Uniswap v3 LiquidityAmounts / position amounts. No demeter imports."""
from fractions import Fraction

Q96 = 2**96


def real_max_liquidity(s: int, sa: int, sb: int, w0: int, w1: int) -> Fraction:
    """Real-valued maximal liquidity purchasable with w0 / w1 wei at sqrt price s for range [sa, sb]."""
    if sa > sb:
        sa, sb = sb, sa
    if s <= sa:
        return Fraction(w0 * sa * sb, Q96 * (sb - sa))
    if s < sb:
        l0 = Fraction(w0 * s * sb, Q96 * (sb - s))
        l1 = Fraction(w1 * Q96, s - sa)
        return min(l0, l1)
    return Fraction(w1 * Q96, sb - sa)


def slack(s: int, sa: int, sb: int, w0: int) -> Fraction:
    """Allowed shortfall of the integer formula: one unit, plus offered token0 / sqrt-price span where token0 takes part."""
    if sa > sb:
        sa, sb = sb, sa
    if s <= sa:
        return 1 + Fraction(w0, sb - sa)
    if s < sb:
        return 1 + Fraction(w0, sb - s)
    return Fraction(1)


def amounts_wei(s: int, sa: int, sb: int, liq: int):
    """Closed-form token amounts (in wei, exact) held by `liq` at sqrt price s."""
    if sa > sb:
        sa, sb = sb, sa
    if s <= sa:
        return Fraction(liq * Q96 * (sb - sa), sa * sb), Fraction(0)
    if s < sb:
        return Fraction(liq * Q96 * (sb - s), s * sb), Fraction(liq * (s - sa), Q96)
    return Fraction(0), Fraction(liq * (sb - sa), Q96)


def region(s: int, sa: int, sb: int) -> str:
    if sa > sb:
        sa, sb = sb, sa
    return "below" if s <= sa else ("inside" if s < sb else "above")
