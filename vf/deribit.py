"""Deribit world: loader-shaped option-book frames from generated plain data, and the reference matching / settlement rules.

Instrument (plain): {"name", "type": "CALL"|"PUT", "strike": int, "expiry_h": hours from BASE, "mark": float,
                     "underlying": float, "asks": [[price, size]...], "bids": [[price, size]...], "state": "open",
                     "delta": float, "gamma": float}
A frame maps hour -> list of instruments (the listing of that hour's snapshot).
"""
from __future__ import annotations

import decimal
from decimal import Decimal

import pandas as pd

D = Decimal
BASE = pd.Timestamp("2024-03-05 00:00:00")
COLS = ["state", "type", "strike_price", "t", "expiry_time", "vega", "theta", "rho", "gamma", "delta", "underlying_price", "settlement_price",
        "mark_price", "mark_iv", "last_price", "interest_rate", "bid_iv", "best_bid_price", "best_bid_amount", "ask_iv", "best_ask_price",
        "best_ask_amount", "asks", "bids"]
CFG = {"ETH": {"step": D("1"), "fee_step": D("0.000001"), "fee_exp": -6, "trade_exp": 0}, "BTC": {"step": D("0.1"), "fee_step": D("0.00000001"), "fee_exp": -8, "trade_exp": -1}}
TRADE_FEE = D("0.0003")
DELIVER_FEE = D("0.00015")
MAX_FEE = D("0.125")


def hour(h) -> pd.Timestamp:
    return BASE + pd.Timedelta(hours=h)


def inst_name(tok, expiry_h, strike, kind):
    e = hour(expiry_h)
    return f"{tok}-{e.strftime('%d%b%y').upper()}-{e.strftime('%H')}-{strike}-{'C' if kind == 'CALL' else 'P'}"


def row_of(ins, ts):
    import copy

    exp = hour(ins["expiry_h"])
    asks, bids = copy.deepcopy(ins["asks"]), copy.deepcopy(ins["bids"])
    return [
        ins.get("state", "open"), ins["type"], ins["strike"], exp - ts, exp, 1.4, -1.0, 0.6, ins.get("gamma", 0.003), ins.get("delta", 0.6),
        ins["underlying"], float("nan"), ins["mark"], 31.2, float("nan"), 0.0, 27.9, bids[0][0] if bids else float("nan"),
        bids[0][1] if bids else 0.0, 33.7, asks[0][0] if asks else float("nan"), asks[0][1] if asks else 0.0, asks, bids,
    ]


def frame(hours: dict) -> pd.DataFrame:
    """{hour_number: [instrument...]} -> frame indexed by (time, instrument_name) like load_deribit_option_data()."""
    idx, rows = [], []
    for h in sorted(hours):
        ts = hour(h)
        for ins in sorted(hours[h], key=lambda i: i["name"]):
            idx.append((ts, ins["name"]))
            rows.append(row_of(ins, ts))
    df = pd.DataFrame(rows, columns=COLS, index=pd.MultiIndex.from_tuples(idx, names=["time", "instrument_name"]))
    df["expiry_time"] = pd.to_datetime(df["expiry_time"])
    df["t"] = pd.to_timedelta(df["t"])
    return df.sort_index()


def token(cfg):
    from demeter.deribit import DeribitOptionMarket

    return DeribitOptionMarket.ETH if cfg == "ETH" else DeribitOptionMarket.BTC


def static_market(cfg, df, cash, wallet="0"):
    from demeter import Broker, MarketInfo, MarketTypeEnum
    from demeter.deribit import DeribitOptionMarket

    actions = []
    broker = Broker(record_action_callback=actions.append)
    m = DeribitOptionMarket(MarketInfo("deribit", MarketTypeEnum.deribit_option), token(cfg), data=df)
    broker.add_market(m)
    broker.set_balance(token(cfg), D(wallet) + D(cash))
    return broker, m, actions


def set_hour(m, cfg, ts, underlying):
    from demeter.deribit import DeribitMarketStatus

    m.set_market_status(DeribitMarketStatus(timestamp=ts, data=None), price=pd.Series([underlying], index=[token(cfg).name]))


# ------------------------------------------------------------------------------------------------ reference
def rhu(x: Decimal, step: Decimal) -> Decimal:
    """round half up to a multiple of step (step is a power of ten)"""
    with decimal.localcontext() as c:
        c.prec = 60
        return D(x).quantize(step, rounding=decimal.ROUND_HALF_UP)


def dd(x) -> Decimal:
    return x if isinstance(x, Decimal) else D(str(x))


def trade_fee(cfg, amount, premium):
    return rhu(min(TRADE_FEE * amount, MAX_FEE * premium), CFG[cfg]["fee_step"])


def match(cfg, levels, amount_req, mode, mark, underlying, is_buy):
    """Reference matching over the *visible* levels [[price, size]...] (best first).

    Returns ("reject", why) or ("fill", amount, [(price, size)...], margin) where margin is the smallest distance of a
    decision from its boundary (requested vs available), used to skip float-dust boundary cases.
    """
    step = CFG[cfg]["step"]
    amount_req = dd(amount_req)
    if amount_req < step:
        return ("reject", "below minimum")
    amount = rhu(amount_req, step)
    lv = [[dd(p), dd(s)] for p, s in levels]
    mark = dd(mark)
    if mode[0] == "cap" or (len(mode) > 3 and mode[3] is not None):
        mult = D(mode[1]) if mode[0] == "cap" else D(mode[3])
        cap = mult * mark if is_buy else mark / mult
        if any(abs(l[0] - cap) <= D("1e-12") * cap for l in lv):
            # a level exactly on the cap: book prices and the mark are floats, so which side it falls on is not defined
            return ("reject", "level on the cap", D(0))
        lv = [l for l in lv if (l[0] < cap if is_buy else l[0] > cap)]
    if mode[0] in ("token", "usd"):
        price = D(mode[1])
        if mode[0] == "usd":
            price = price / dd(underlying)
        hit = [l for l in lv if D("0.999") * price < l[0] < D("1.001") * price]
        if not hit:
            return ("reject", "no such price level")
        lvl = hit[0]
        if amount > lvl[1]:
            return ("reject", "level too small", abs(amount - lvl[1]))
        return ("fill", amount, [(lvl[0], amount)], abs(lvl[1] - amount) if lvl[1] != amount else D(1))
    avail = sum((l[1] for l in lv), D(0))
    if amount > avail:
        return ("reject", "insufficient depth", abs(amount - avail))
    fills, left = [], amount
    for l in lv:
        if l[1] == 0:
            continue
        take = min(l[1], left)
        fills.append((l[0], take))
        left -= take
        if left == 0:
            break
    return ("fill", amount, fills, D(1))


def settle(cfg, kind, strike, amount, underlying, mark):
    """(payout, fee) credited at expiry, or None when nothing is paid."""
    U, K = dd(underlying), dd(strike)
    fs = CFG[cfg]["fee_step"]
    itm = (kind == "CALL" and K < U) or (kind == "PUT" and K > U)
    if not itm:
        return None
    with decimal.localcontext() as c:
        c.prec = 60
        pay = rhu(amount * abs(U - K) / U, fs)
        fee = rhu(min(DELIVER_FEE * amount, MAX_FEE * amount * rhu(dd(mark), fs)), fs)
    if pay <= fee:
        return None
    return pay, fee
