#!/venv/bin/python
"""Final verdicts of seeded changes: tools/seedverdicts.py C01e:C01 C08e:C08,C19 ...  -> one JSON line per change"""
import json, os, subprocess, sys
HERE = os.path.dirname(os.path.dirname(os.path.abspath(__file__)))
for spec in sys.argv[1:]:
    sid, props = spec.split(":")
    p = subprocess.run([os.path.join(HERE, "tools", "seedcheck.py"), os.path.join(HERE, "seeded", sid), "--props", props, "--no-tests"], capture_output=True, text=True)
    t = p.stdout
    try:
        j = json.loads(t[t.index("{"):])
        print(json.dumps({"id": sid, "checks": j.get("checks"), "demo": [j.get("demo_clean"), j.get("demo_patched")]}), flush=True)
    except Exception as e:  # noqa
        print(json.dumps({"id": sid, "error": str(e), "out": t[-500:]}), flush=True)
