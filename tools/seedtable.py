#!/venv/bin/python
"""Markdown table of seeded changes from seeded/<id>/meta.json: tools/seedtable.py 'C??[ef]' 'round 4'"""
import glob, json, os, sys
HERE = os.path.dirname(os.path.dirname(os.path.abspath(__file__)))
pat, title = sys.argv[1], sys.argv[2]
print(f"| id | property | change (independent sub-agent, {title}) | needs | result |\n|---|---|---|---|---|")
for d in sorted(glob.glob(os.path.join(HERE, "seeded", pat))):
    m = json.load(open(os.path.join(d, "meta.json")))
    own = m["property"]
    ch = m.get("checks", {})
    res = ", ".join(f"{k} {'caught' if x['verdict'] == 'caught' else 'MISSED'}" + (f" ({x['wall_s']}s)" if x.get("wall_s") else "") for k, x in ch.items())
    if m.get("first_run", {}).get(own) == "MISSED" and ch.get(own, {}).get("verdict") == "caught":
        res += "; missed at first, strengthened"
    if m.get("note"):
        res += "; " + m["note"]
    cut = lambda s, n: s[:n].replace("|", "/").replace("\n", " ")
    print(f"| {os.path.basename(d)} | {own} | {cut(m['summary'], 170)} | {cut(m['needs'], 150)} | {res} |")
