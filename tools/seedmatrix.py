#!/venv/bin/python
"""Cross matrix: run each seeded change (seeded/<id>/) against the quick checks of neighbouring properties
(chosen by the files the change touches). Documentation aid, not a registered check.
usage: tools/seedmatrix.py [--only C01a,C02b] > matrix.jsonl"""
import argparse, glob, json, os, subprocess, sys
HERE = os.path.dirname(os.path.dirname(os.path.abspath(__file__)))
NEIGH = [
    ("demeter/uniswap", ["C01", "C03", "C04", "C07", "C08", "C09"]),
    ("demeter/aave", ["C01", "C03", "C04", "C10", "C11", "C12", "C13"]),
    ("demeter/squeeth", ["C01", "C03", "C04", "C14"]),
    ("demeter/deribit", ["C01", "C02", "C03", "C04", "C15", "C16", "C19"]),
    ("demeter/gmx", ["C01", "C03", "C04", "C17"]),
    ("demeter/core", ["C01", "C02", "C05", "C18", "C19"]),
    ("demeter/broker", ["C01", "C03", "C04", "C05"]),
    ("demeter/strategy", ["C05", "C18"]),
    ("demeter/result", ["C20"]),
]
ap = argparse.ArgumentParser()
ap.add_argument("--only", default="")
args = ap.parse_args()
only = [x for x in args.only.split(",") if x]
for d in sorted(glob.glob(os.path.join(HERE, "seeded", "C???"))):
    sid = os.path.basename(d)
    if only and sid not in only:
        continue
    meta = json.load(open(os.path.join(d, "meta.json")))
    diff = open(os.path.join(d, "patch.diff")).read()
    props = []
    for prefix, ps in NEIGH:
        if prefix in diff:
            props += [p for p in ps if p not in props]
    if meta["property"] not in props:
        props.insert(0, meta["property"])
    p = subprocess.run([os.path.join(HERE, "tools", "seedcheck.py"), d, "--no-tests", "--props", ",".join(props)], capture_output=True, text=True)
    t = p.stdout
    try:
        o = json.loads(t[t.index('{\n "dir"'):])
        row = {"id": sid, "property": meta["property"], "verdicts": {k: v["verdict"] for k, v in o.get("checks", {}).items()}}
    except Exception as e:  # noqa
        row = {"id": sid, "error": t[-300:]}
    print(json.dumps(row), flush=True)
