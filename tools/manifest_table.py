NOTES = ("Every check: ./check <ID> --tier quick|thorough; VERIF_SEED selects the Hypothesis seeds; evidence/<ID>.json is rewritten "
         "by every run; replays/ holds shrunk failing cases; known_findings.json lists recorded and fixed defects.")
NOT_APPLICABLE = {}
CHECKS = {
 "C06": {
  "technique": "exhaustive enumeration of all ticks + Hypothesis-drawn sqrt prices against a precision-100 reference and an integer floor oracle",
  "text": "All 1,774,545 ticks are enumerated against an independent high-precision reference (closeness bound, strict monotonicity, boundary constants); the floor inverse is decided with integers for 3 sqrt prices per tick interval (every 13th interval in quick, all in thorough) plus drawn prices; usable-tick rounding over all ticks x 4 spacings; price<->tick round trips over drawn ticks x decimals x orientation. Exhaustive for the forward map and rounding, sampled for sqrt prices between boundaries (domain ~2^160).",
  "note": "Trusts Python's decimal module at precision 100 for the reference; the floor oracle uses the implementation's own tick->ratio map, tied to the reference by the forward part.",
 },
}
