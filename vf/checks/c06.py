"""C06 — tick <-> sqrt-price conversions agree with Uniswap v3 TickMath."""
from decimal import Decimal

from hypothesis import strategies as st

from vf.engine import Ctx, derive_seed, replay_body, run_given, run_list
from vf.ref import tickmath as T

PROPERTY = "C06"
RULE = (
    "forward: every tick in [-887272, 887272] enumerated (16 contiguous ranges) against a precision-100 Decimal "
    "reference; inverse: for every tick t the three sqrt prices ratio(t), ratio(t+1)-1 and the midpoint, plus "
    "Hypothesis-drawn integers over [MIN_SQRT_RATIO, MAX_SQRT_RATIO], decided with integers only; usable-tick rounding: "
    "every tick x spacings {1,10,60,200}; price<->tick round trips: Hypothesis-drawn ticks and log-uniform prices x "
    "decimals {6,8,18}^2 x both orientations. Every case is non-trivial (each tick / price is its own class); distinct "
    "by argument tuple."
)
ASSUMPTIONS = [
    "reference R(t)=exp(t/2*ln 1.0001)*2^96 computed with decimal precision 100, re-anchored every 4096 ticks",
    "floor inverse judged against the implementation's own tick->ratio map, which the forward part ties to R(t)",
]
MIN_NONTRIVIAL = {"quick": 100000, "thorough": 1000000}
EXHAUSTIVE = {
    "quick": ["forward: all 1,774,545 ticks", "usable-tick rounding: all ticks x 4 spacings"],
    "thorough": ["forward: all 1,774,545 ticks", "inverse: 3 sqrt prices per tick interval, all ticks", "usable-tick rounding: all ticks x 4 spacings"],
}
REQUIRED_LABELS = ["inv.negative", "inv.positive", "inv.between", "fwd.boundary", "price.ptype.UnitDecimal", "price.ttype.int64"]

DECIMALS = [6, 8, 18]
SPACINGS = [1, 10, 60, 200]


def _impl():
    from demeter.uniswap import helper as H
    from demeter.uniswap.liquitidy_math import get_sqrt_ratio_at_tick

    return H, get_sqrt_ratio_at_tick


# ---------------------------------------------------------------- forward, exhaustive
def body_forward(case, ctx: Ctx):
    """case = [a, b): enumerates ticks a..b-1."""
    H, g = _impl()
    a, b = case
    prev = g(a - 1) if a - 1 >= T.MIN_TICK else None
    n = 0
    for t, r in T.ratios(a, b):
        v = ctx.guarded("fwd", {"tick": t}, g, t)
        if v is None:
            continue
        n += 1
        d = abs(Decimal(v) - r)
        if not d < T.abs_bound(t, r):
            ctx.fail("fwd.closeness", f"tick {t}: impl {v} ref {r:.3f} |diff| {d:.3f}", {"tick": t})
        if prev is not None and not v > prev:
            ctx.fail("fwd.monotone", f"tick {t}: ratio {v} <= ratio(t-1) {prev}", {"tick": t})
        if H.tick_to_sqrt_price_x96(t) != v:
            ctx.fail("fwd.alias", f"tick_to_sqrt_price_x96({t}) != get_sqrt_ratio_at_tick", {"tick": t})
        prev = v
    if a <= T.MIN_TICK < b:
        ctx.label("fwd.boundary")
        ctx.check(g(T.MIN_TICK) == T.MIN_SQRT_RATIO, "fwd.boundary", f"MIN ratio {g(T.MIN_TICK)}", {"tick": T.MIN_TICK})
    if a <= T.MAX_TICK < b:
        ctx.label("fwd.boundary")
        ctx.check(g(T.MAX_TICK) == T.MAX_SQRT_RATIO, "fwd.boundary", f"MAX ratio {g(T.MAX_TICK)}", {"tick": T.MAX_TICK})
    ctx.evals += n
    ctx.labels["fwd.ticks"] += n
    for i in range(n):
        pass
    # every tick is its own class: count them as distinct non-trivial without hashing each one
    ctx.nontrivial.update(f"f{t}" for t in range(a, b))
    if len(ctx.samples) < 2:
        ctx.samples.append({"forward_range": [a, b], "first": {"tick": a, "impl": str(g(a)), "ref": str(T.ratio_at(a))[:60]}})


# ---------------------------------------------------------------- inverse, integer oracle
def _check_inverse(H, g, s: int, ctx: Ctx, kind: str):
    case = {"sqrt_price_x96": str(s), "kind": kind}
    r = ctx.guarded("inv", case, H.sqrt_price_x96_to_tick, s)
    if r is None:
        return
    ok = isinstance(r, int) and T.MIN_TICK <= r <= T.MAX_TICK and g(r) <= s and (r == T.MAX_TICK or s < g(r + 1))
    ctx.labels["inv.negative" if r < 0 else "inv.positive"] += 1
    ctx.labels[f"inv.{kind}"] += 1
    if not ok:
        side = "neg" if r <= 0 else "pos"
        ctx.fail(f"inv.floor.{kind}.{side}", f"sqrt_price_x96_to_tick({s}) = {r}: not the greatest tick with ratio <= input", case)


def body_inverse_range(case, ctx: Ctx):
    H, g = _impl()
    a, b, step = case
    n = 0
    lo = g(a)
    for t in range(a, b, step):
        lo = g(t)
        hi = g(t + 1) if t < T.MAX_TICK else lo + 1
        _check_inverse(H, g, lo, ctx, "boundary")
        if hi - 1 > lo:
            _check_inverse(H, g, hi - 1, ctx, "below_next")
            _check_inverse(H, g, (lo + hi) // 2, ctx, "between")
            n += 2
        n += 1
        ctx.nontrivial.add(f"i{t}")
    ctx.evals += n
    if len(ctx.samples) < 2:
        ctx.samples.append({"inverse_range": [a, b, step], "first": {"s": str(g(a)), "tick": H.sqrt_price_x96_to_tick(g(a))}})


def body_inverse_drawn(case, ctx: Ctx):
    H, g = _impl()
    s = int(case["s"])
    _check_inverse(H, g, s, ctx, "between")
    ctx.case(case, True)


def _st_sqrt():
    # log-uniform over the 128-bit span via a tick anchor plus an offset inside the interval
    return st.builds(lambda t, f: {"t": t, "f": f}, st.integers(T.MIN_TICK, T.MAX_TICK - 1), st.integers(0, 10**6))


def body_inverse_drawn_wrap(case, ctx: Ctx):
    H, g = _impl()
    lo, hi = g(case["t"]), g(case["t"] + 1)
    s = lo + (hi - lo) * case["f"] // 10**6
    body_inverse_drawn({"s": str(s), "t": case["t"], "f": case["f"]}, ctx)


# ---------------------------------------------------------------- nearest usable tick
def body_usable(case, ctx: Ctx):
    H, g = _impl()
    a, b = case
    n = 0
    for sp in SPACINGS:
        lo_m = -(T.MAX_TICK // sp) * sp
        hi_m = (T.MAX_TICK // sp) * sp
        for t in range(a, b):
            r = H.nearest_usable_tick(t, sp)
            n += 1
            # nearest multiple inside the valid range (ties either way)
            fl = (t // sp) * sp
            cands = [c for c in (fl, fl + sp) if lo_m <= c <= hi_m]
            best = min(abs(c - t) for c in cands)
            if not (r % sp == 0 and lo_m <= r <= hi_m and abs(r - t) == best):
                ctx.fail("usable.nearest", f"nearest_usable_tick({t},{sp}) = {r}; nearest valid distance {best}", {"tick": t, "spacing": sp})
    ctx.evals += n
    ctx.labels["usable"] += n
    ctx.nontrivial.update(f"u{t}" for t in range(a, b))


# ---------------------------------------------------------------- price helpers
def body_price(case, ctx: Ctx):
    H, g = _impl()
    t, d0, d1, q = case["tick"], case["d0"], case["d1"], case["q"]
    # argument types a caller really has in hand: ticks read from a data frame are numpy integers, prices handed out by
    # the library (action records, position status) are UnitDecimal; the answers must not depend on that
    ttype, ptype = case.get("ttype", "int"), case.get("ptype", "Decimal")
    if ttype != "int":
        import numpy as np

        tn = {"int64": np.int64, "int32": np.int32}[ttype](t)
        p0 = ctx.guarded("price.t2p", case, H.tick_to_base_unit_price, t, d0, d1, q)
        pn = ctx.guarded("price.t2p", case, H.tick_to_base_unit_price, tn, d0, d1, q)
        ctx.check(p0 == pn, "price.tick_type", lambda: f"tick_to_base_unit_price({t}) = {p0} but {pn} for the same tick as numpy {ttype}", case)
        sn = ctx.guarded("price.t2s", case, H.tick_to_sqrt_price_x96, tn)
        ctx.check(sn is not None and int(sn) == g(t), "price.tick_type", lambda: f"tick_to_sqrt_price_x96(numpy {ttype} {t}) = {sn}, protocol ratio {g(t)}", case)
    p = ctx.guarded("price.t2p", case, H.tick_to_base_unit_price, t, d0, d1, q)
    if p is None:
        return
    if ptype == "UnitDecimal":
        from demeter._typing import UnitDecimal

        p = UnitDecimal(p, "quote/base")
    ctx.check(p > 0, "price.positive", f"price {p}", case)
    t2 = ctx.guarded("price.p2t", case, H.base_unit_price_to_tick, p, d0, d1, q)
    if t2 is None:
        return
    ctx.check(abs(t2 - t) <= 1, "price.tick_roundtrip", lambda: f"tick {t} -> price {p} -> tick {t2}", case)
    # sqrt-price route
    s = g(t)
    p_s = H.sqrt_price_x96_to_base_unit_price(s, d0, d1, q)
    ctx.check(abs(p_s / p - 1) < Decimal("1e-30"), "price.sqrt_vs_tick", lambda: f"{p_s} vs {p}", case)
    s2 = H.base_unit_price_to_sqrt_price_x96(p, d0, d1, q)
    ctx.check(abs(Decimal(s2) / Decimal(s) - 1) < Decimal("1e-30") or abs(s2 - s) <= 1, "price.sqrt_roundtrip", lambda: f"{s} -> {p} -> {s2}", case)
    # price -> tick -> price: perturb the price inside the tick interval
    frac = Decimal(case["frac"]) / 1000
    p_next = H.tick_to_base_unit_price(t + 1, d0, d1, q) if t < T.MAX_TICK else p
    pm = p + (p_next - p) * frac
    if ptype == "UnitDecimal":
        pm = UnitDecimal(pm, "quote/base")
    tm = ctx.guarded("price.p2t", case, H.base_unit_price_to_tick, pm, d0, d1, q)
    if tm is not None:
        ctx.check(abs(tm - t) <= 1, "price.price_roundtrip", lambda: f"price {pm} (in tick interval {t}) -> tick {tm}", case)
        back = H.tick_to_base_unit_price(max(T.MIN_TICK, min(T.MAX_TICK, tm)), d0, d1, q)
        rel = back / pm if back > pm else pm / back
        ctx.check(rel <= Decimal("1.0001") * Decimal("1.0001"), "price.price_roundtrip", lambda: f"price {pm} -> tick {tm} -> price {back}", case)
    # the market's own convenience wrappers are the same conversions for its pool
    from vf import world

    mk = _wrapper_market(d0, d1, q)
    pw = ctx.guarded("price.wrapper", case, mk.tick_to_price, t)
    if pw is not None:
        ctx.check(pw == H.tick_to_base_unit_price(t, d0, d1, q), "price.wrapper.t2p", lambda: f"market.tick_to_price({t}) = {pw}, helper gives {H.tick_to_base_unit_price(t, d0, d1, q)} (decimals {d0}/{d1}, token0 quote {q})", case)
        tw = ctx.guarded("price.wrapper", case, mk.price_to_tick, pm)
        # (the wrapper also rounds to the pool's tick spacing: within half a spacing, plus the one tick of the helpers)
        sp_ = mk.pool_info.tick_spacing
        if abs(t) <= T.MAX_TICK - sp_:
            ctx.check(tw is not None and tw % sp_ == 0 and abs(tw - t) <= sp_ / 2 + 1, "price.wrapper.p2t", lambda: f"market.price_to_tick({pm}) = {tw} for a price inside tick {t} (spacing {sp_}, decimals {d0}/{d1}, token0 quote {q})", case)
    ctx.case(case, True, labels=[f"price.q{int(q)}", "price.neg" if t < 0 else "price.pos", f"price.ptype.{ptype}", f"price.ttype.{ttype}"])


_WRAPPERS = {}


def _wrapper_market(d0, d1, q):
    from demeter import MarketInfo
    from demeter.uniswap import UniLpMarket

    from vf import world

    key = (d0, d1, q)
    if key not in _WRAPPERS:
        _WRAPPERS[key] = UniLpMarket(MarketInfo("w"), world.uni_pool(d0, d1, q))
    return _WRAPPERS[key]


def _st_price():
    tick = st.one_of(
        st.integers(T.MIN_TICK, T.MAX_TICK),
        st.integers(-3000, 3000),
        st.sampled_from([T.MIN_TICK, T.MIN_TICK + 1, -1, 0, 1, T.MAX_TICK - 1, T.MAX_TICK]),
    )
    return st.fixed_dictionaries(
        {
            "tick": tick,
            "d0": st.sampled_from(DECIMALS),
            "d1": st.sampled_from(DECIMALS),
            "q": st.booleans(),
            "frac": st.integers(1, 999),
            "ttype": st.sampled_from(["int", "int", "int64", "int32"]),
            "ptype": st.sampled_from(["Decimal", "UnitDecimal"]),
        }
    )


# ---------------------------------------------------------------- plumbing
BODIES = {
    "forward": body_forward,
    "inverse_range": body_inverse_range,
    "inverse_drawn": body_inverse_drawn_wrap,
    "usable": body_usable,
    "price": body_price,
}


def _ranges(n):
    total = T.MAX_TICK - T.MIN_TICK + 1
    edges = [T.MIN_TICK + total * i // n for i in range(n + 1)]
    return [(edges[i], edges[i + 1]) for i in range(n)]


def shards(tier, seed):
    out = []
    for i, (a, b) in enumerate(_ranges(16)):
        out.append({"sub": "forward", "idx": i, "range": [a, b]})
        out.append({"sub": "usable", "idx": i, "range": [a, b]})
        step = 1 if tier == "thorough" else 13
        # quick: every 13th interval (offset by seed) plus all |t| < 3000
        off = (seed + i) % step
        out.append({"sub": "inverse_range", "idx": i, "range": [a + off, min(b, T.MAX_TICK + 1), step]})
    out.append({"sub": "inverse_range", "idx": 100, "range": [-3000, 3000, 1]})
    out.append({"sub": "inverse_range", "idx": 101, "range": [T.MIN_TICK, T.MIN_TICK + 2000, 1]})
    out.append({"sub": "inverse_range", "idx": 102, "range": [T.MAX_TICK - 2000, T.MAX_TICK + 1, 1]})
    n = 4000 if tier == "quick" else 60000
    for i in range(8):
        out.append({"sub": "inverse_drawn", "idx": i, "n": n, "seed": derive_seed(seed, PROPERTY, "inverse_drawn", i)})
        out.append({"sub": "price", "idx": i, "n": n, "seed": derive_seed(seed, PROPERTY, "price", i)})
    return out


def run_shard(spec):
    ctx = Ctx(PROPERTY, spec["sub"])
    sub = spec["sub"]
    if sub in ("forward", "usable", "inverse_range"):
        v = run_list(ctx, [spec["range"]], BODIES[sub])
    elif sub == "inverse_drawn":
        v = run_given(ctx, _st_sqrt(), body_inverse_drawn_wrap, spec["n"], spec["seed"])
    else:
        v = run_given(ctx, _st_price(), body_price, spec["n"], spec["seed"])
    return ctx.result(v)


def replay(rec):
    sub, case = rec["sub"], rec["case"]
    H, g = _impl()
    if sub == "forward":
        t = case["tick"]
        return replay_body(PROPERTY, body_forward, [max(T.MIN_TICK, t - 1), t + 1], sub)
    if sub in ("inverse_range", "inverse_drawn"):
        def b(c, ctx):
            _check_inverse(H, g, int(c["sqrt_price_x96"]), ctx, c.get("kind", "between"))
        return replay_body(PROPERTY, b, case, sub)
    if sub == "usable":
        def b(c, ctx):
            r = H.nearest_usable_tick(c["tick"], c["spacing"])
            sp, t = c["spacing"], c["tick"]
            lo_m, hi_m = -(T.MAX_TICK // sp) * sp, (T.MAX_TICK // sp) * sp
            fl = (t // sp) * sp
            best = min(abs(x - t) for x in (fl, fl + sp) if lo_m <= x <= hi_m)
            ctx.check(r % sp == 0 and lo_m <= r <= hi_m and abs(r - t) == best, "usable.nearest", f"{r}", c)
        return replay_body(PROPERTY, b, case, sub)
    return replay_body(PROPERTY, body_price, case, sub)
