#!/venv/bin/python
"""Which lines of the code under test do the checks execute?  (gap finder, not a verdict)

usage: tools/covreport.py run C07 [C08 ...] [--tier quick]   -> runs the checks with VF_COV and stores .cov/<ID>/
       tools/covreport.py show C07 [--files demeter/uniswap/core.py,...] -> uncovered executable lines of the property's
                                                                       anchor files (or the given files), grouped by function
"""
import ast, glob, json, os, subprocess, sys

HERE = os.path.dirname(os.path.dirname(os.path.abspath(__file__)))
SRC = os.environ.get("DEMETER_SRC", "/repo")
COV = os.path.join(HERE, ".cov")


def executable_lines(path):
    src = open(path).read()
    code = compile(src, path, "exec")
    lines = set()

    def walk(c):
        for _, _, ln in c.co_lines():
            if ln:
                lines.add(ln)
        for k in c.co_consts:
            if hasattr(k, "co_lines"):
                walk(k)

    walk(code)
    tree = ast.parse(src)
    funcs = []
    doc = set()
    for n in ast.walk(tree):
        if isinstance(n, (ast.FunctionDef, ast.AsyncFunctionDef)):
            funcs.append((n.lineno, n.end_lineno, n.name))
        if isinstance(n, (ast.FunctionDef, ast.ClassDef, ast.Module)) and n.body and isinstance(n.body[0], ast.Expr) and isinstance(getattr(n.body[0], "value", None), ast.Constant) and isinstance(n.body[0].value.value, str):
            doc.update(range(n.body[0].lineno, n.body[0].end_lineno + 1))
    body, header = set(), set()
    for n in ast.walk(tree):
        if isinstance(n, (ast.FunctionDef, ast.AsyncFunctionDef)):
            body.update(range(n.body[0].lineno, n.end_lineno + 1))
            first = min([n.lineno] + [d.lineno for d in n.decorator_list])
            header.update(range(first, n.body[0].lineno))
    # def headers / decorators / class bodies run at import time, before monitoring starts: not counted
    return (lines & body) - header - doc, funcs, src.splitlines()


def anchors(pid):
    for l in open(os.path.join(HERE, "properties.jsonl")):
        p = json.loads(l)
        if p["id"] == pid:
            return p["anchors"]["files"]
    return []


def main():
    cmd = sys.argv[1]
    args = [a for a in sys.argv[2:] if not a.startswith("--")]
    opts = dict(a[2:].split("=", 1) if "=" in a else (a[2:], "1") for a in sys.argv[2:] if a.startswith("--"))
    if cmd == "run":
        for pid in args:
            d = os.path.join(COV, pid)
            subprocess.run(["rm", "-rf", d])
            env = dict(os.environ, VF_COV=d, VF_NO_EVIDENCE="1")
            p = subprocess.run([os.path.join(HERE, "check"), pid, "--tier", opts.get("tier", "quick")], env=env, capture_output=True, text=True)
            print(pid, "rc", p.returncode, p.stdout.strip().splitlines()[-1:] )
    elif cmd == "show":
        hit = {}
        for pid in args:
            for f in glob.glob(os.path.join(COV, pid, "*.json")):
                for fn, ln in json.load(open(f)):
                    hit.setdefault(fn, set()).add(ln)
        files = opts["files"].split(",") if "files" in opts else sorted({f for pid in args for f in anchors(pid)})
        for f in files:
            rel = f[len("demeter/"):] if f.startswith("demeter/") else f
            ex, funcs, src = executable_lines(os.path.join(SRC, "demeter", rel))
            miss = sorted(ex - hit.get(rel, set()))
            print(f"== {rel}: {len(ex) - len(miss)}/{len(ex)} executable lines hit")
            byf = {}
            for ln in miss:
                owner = [(-(e - s), n, s) for s, e, n in funcs if s <= ln <= e]
                name = max(owner)[1] if owner else "<module>"
                byf.setdefault(name, []).append(ln)
            for name, lns in byf.items():
                if name == "<module>":
                    continue
                body = [l for l in lns]
                print(f"   {name}: " + " ".join(map(str, body[:40])))
                if "src" in opts:
                    for l in body[:12]:
                        print(f"        {l}: {src[l-1].strip()[:110]}")


main()
